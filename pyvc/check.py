"""bin/check <ID>: decide one property by discharging every obligation generated from the
current working tree of --repo.  Exit 0 held / 1 violation / 2 undecided / 3 checker fault."""
import argparse
import hashlib
import importlib
import json
import multiprocessing as mp
import os
import subprocess
import sys
import time
import traceback

VERIF = os.path.dirname(os.path.dirname(os.path.abspath(__file__)))
NATIVE_PY = "/venv/bin/python"


def _load_registry():
    sys.path.insert(0, VERIF)
    from spec import registry
    return registry


_B = int(os.environ.get("VERIF_ITEM_BUDGET", "0") or 0)
ITEM_BUDGET_S = {"quick": _B or 900, "thorough": _B or 1800}    # wall budget of one exploration task (a shard counts separately)
SPLIT_AFTER = 10      # paths an item explores before its open subtrees are handed to other workers
MAX_SHARDS = 12


def _worker(task):
    modname, item_name, repo, timeout_ms, findings_keys, recheck = task[:6]
    roots = None
    split_after = SPLIT_AFTER
    if len(task) > 6 and task[6] is not None:
        from pyvc.core import Prefix
        roots = []
        for dec, fps in task[6]:
            pf = Prefix(dec)
            pf.fps = list(fps)
            roots.append(pf)
        split_after = 3 * SPLIT_AFTER     # a shard that turns out to be a big subtree is split again
    t0 = time.time()
    out = {"item": item_name, "module": modname, "obligations": [], "paths": 0, "unsupported": [],
           "side_unknown": [], "solver_time": 0.0, "solver_calls": 0, "covered": [], "error": None,
           "truncated": False, "kind": "contract"}
    item_deadline = task[7] if len(task) > 7 else None
    if item_deadline is not None and time.time() > item_deadline:
        # the item's global budget is used up (its path tree keeps growing): do not start this subtree
        out["truncated"] = True
        out["wall"] = 0.0
        out["target"] = None
        out["skipped_after_budget"] = True
        return out
    try:
        sys.setrecursionlimit(20000)
        from pyvc.frontend import Program
        from pyvc.explore import explore
        from pyvc.driver import contract_driver, lemma_driver
        from pyvc.cdef import Contract, Lemma
        mod = importlib.import_module(modname)
        item = None
        for c in list(getattr(mod, "CONTRACTS", [])) + list(getattr(mod, "LEMMAS", [])):
            if c.name == item_name:
                item = c
        if item is None:
            raise RuntimeError("item %s not found in %s" % (item_name, modname))
        prog = Program(repo, VERIF)
        # per-VC solver budget: THREE times the nominal value.  z3's timeout is wall-clock; with the machine shared by
        # several checks (load 2.5x the core count) VCs that take ~25 s alone ran into the nominal 60 s and the check came
        # back UNDECIDED on the unchanged tree.  Valid VCs cost what they cost; only hopeless ones wait longer.
        tmo = 3 * (item.timeout_ms or timeout_ms)
        if isinstance(item, Lemma):
            out["kind"] = "lemma"
            out["expect_sat"] = item.expect_sat
            res = explore(prog, item.name, lemma_driver(prog, item), timeout_ms=tmo, recheck=recheck, roots=roots, split_after=split_after,
                          budget_s=ITEM_BUDGET_S["thorough" if timeout_ms > 60000 else "quick"])
            out["target"] = item.pred
        else:
            from pyvc.cdef import Finding
            fnd = [Finding(f.get("id"), f.get("property"), f.get("obligation"), f.get("when"), f.get("what"), f.get("witness"))
                   for f in findings_keys
                   if f.get("when") and (f.get("obligation", "") == item.name or f.get("obligation", "").startswith(item.name + "."))]
            res = explore(prog, item.name, contract_driver(prog, item, findings=fnd), timeout_ms=tmo,
                          max_paths=item.max_paths, recheck=recheck, roots=roots, split_after=split_after,
                          budget_s=ITEM_BUDGET_S["thorough" if timeout_ms > 60000 else "quick"])
            out["target"] = item.target
            out["replayable"] = getattr(item, "replayable", True)
            out["excluded_findings"] = [f.fid for f in fnd]
        for o in res.obligations:
            out["obligations"].append({"name": o.name, "status": o.status, "time": round(o.time, 4), "model": o.model,
                                       "info": o.info, "solver": o.solver, "path": o.path})
        out["paths"] = len(res.paths)
        out["outcomes"] = sorted(set(str(p.outcome) for p in res.paths))
        out["unsupported"] = sorted(set(res.unsupported))
        out["side_unknown"] = sorted(set(res.side_unknown))
        out["solver_time"] = res.solver_time
        out["solver_calls"] = res.solver_calls
        out["covered"] = sorted(res.covered)
        out["truncated"] = res.truncated
        out["leftover"] = [(list(p), list(getattr(p, "fps", ()))) for p in res.leftover]
        if res.error:
            out["error"] = res.error
    except Exception:
        out["error"] = traceback.format_exc()
    out["wall"] = time.time() - t0
    return out


def _merge_shard(base, r):
    """fold the result of a subtree shard into the item's result record"""
    base["obligations"].extend(r["obligations"])
    base["paths"] += r["paths"]
    base["solver_time"] += r["solver_time"]
    base["solver_calls"] += r["solver_calls"]
    base["unsupported"] = sorted(set(base["unsupported"]) | set(r["unsupported"]))
    base["side_unknown"] = sorted(set(base["side_unknown"]) | set(r["side_unknown"]))
    base["covered"] = sorted(set(base["covered"]) | set(r["covered"]))
    base["outcomes"] = sorted(set(base.get("outcomes", [])) | set(r.get("outcomes", [])))
    base["truncated"] = base["truncated"] or r["truncated"]
    base["error"] = base["error"] or r["error"]
    base["shards"] = base.get("shards", 1) + 1
    base["cpu"] = base.get("cpu", base["wall"]) + r["wall"]
    base["wall_end"] = max(base.get("wall_end", 0.0), r.get("t_end", 0.0))


def run_tasks(tasks, jobs):
    """every item starts as one task; an item whose path tree is still open after SPLIT_AFTER paths
    hands its unexplored alternatives (disjoint subtrees) back and they are explored by other
    workers in parallel; results are merged per item"""
    results = {}
    item_t0 = {}
    pending = []
    t0 = time.time()
    with mp.Pool(min(jobs, max(len(tasks), 4))) as pool:
        for t in tasks:
            pending.append((t, pool.apply_async(_worker, (t,))))
        while pending:
            nxt = []
            progressed = False
            for t, ar in pending:
                if not ar.ready():
                    nxt.append((t, ar))
                    continue
                progressed = True
                r = ar.get()
                r["t_end"] = time.time() - t0
                left = r.pop("leftover", None) or []
                if len(t) > 6 and t[6] is not None:
                    _merge_shard(results[r["item"]], r)
                else:
                    results[r["item"]] = r
                    item_t0[r["item"]] = time.time() - r["wall"]
                tier_budget = ITEM_BUDGET_S["thorough" if t[3] > 60000 else "quick"]
                if left and time.time() - item_t0.get(r["item"], t0) > 2 * tier_budget:
                    # the item's path tree keeps growing (a loop that no longer terminates?): stop
                    # handing out its subtrees; what was found so far decides (violation) or not (undecided)
                    results[r["item"]]["truncated"] = True
                    left = []
                if left and not r["error"]:
                    k = min(MAX_SHARDS, len(left))
                    chunks = [left[i::k] for i in range(k)]
                    for ch in chunks:
                        st = tuple(t[:6]) + (ch, item_t0.get(r["item"], t0) + 2 * tier_budget)
                        nxt.append((st, pool.apply_async(_worker, (st,))))
            pending = nxt
            if not progressed:
                time.sleep(0.05)
    out = list(results.values())
    for r in out:
        if r.get("wall_end"):
            r["wall"] = max(r["wall"], r["wall_end"])
    out.sort(key=lambda r: r["item"])
    return out


def repo_fingerprint(repo):
    try:
        head = subprocess.run(["git", "-C", repo, "rev-parse", "HEAD"], capture_output=True, text=True).stdout.strip()
        diff = subprocess.run(["git", "-C", repo, "diff", "HEAD"], capture_output=True, text=True).stdout
        return head, hashlib.sha1(diff.encode()).hexdigest()[:12] if diff else "clean"
    except Exception:
        return "?", "?"


def parse_known_findings(path):
    out = []
    if not os.path.exists(path):
        return out
    for line in open(path):
        line = line.strip()
        if not line or line.startswith("#"):
            continue
        kind, _, rest = line.partition(":")
        kind = kind.strip()
        fields = {}
        # key=value tokens; 'what=' takes the rest of the line
        rest = rest.strip()
        what = ""
        if " what=" in rest:
            rest, _, what = rest.partition(" what=")
        for tok in rest.split():
            if "=" in tok:
                k, _, v = tok.partition("=")
                fields[k] = v
        fields["what"] = what.strip()
        fields["kind"] = kind
        out.append(fields)
    return out


def native_replay(replay_path, repo):
    env = dict(os.environ)
    env["PYTHONPATH"] = VERIF
    env["PYTHONDONTWRITEBYTECODE"] = "1"
    try:
        p = subprocess.run([NATIVE_PY, "-m", "pyvc.replay_native", replay_path, "--repo", repo],
                           capture_output=True, text=True, timeout=120, env=env, cwd=VERIF)
    except subprocess.TimeoutExpired:
        return {"reproduced": False, "error": "native replay timed out"}
    try:
        return json.loads(p.stdout.strip().splitlines()[-1])
    except Exception:
        return {"reproduced": False, "error": "native replay failed: " + (p.stderr or p.stdout)[-2000:]}


def main(argv=None):
    ap = argparse.ArgumentParser()
    ap.add_argument("prop")
    ap.add_argument("--tier", default=os.environ.get("VERIF_TIER", "quick"))
    ap.add_argument("--repo", default="/repo")
    ap.add_argument("--replay", default=None)
    ap.add_argument("--only", default=None, help="substring filter on item names (debugging)")
    ap.add_argument("--jobs", type=int, default=min(16, os.cpu_count() or 4))
    ap.add_argument("--no-evidence", action="store_true")
    ap.add_argument("--evidence-dir", default=None)
    args = ap.parse_args(argv)
    seed = int(os.environ.get("VERIF_SEED", "0") or 0)
    tier = args.tier if args.tier in ("quick", "thorough") else "quick"
    os.environ["VERIF_TIER"] = tier      # spec modules size their case splits by it (imported below and in the workers)
    repo = os.path.abspath(args.repo)
    t_start = time.time()

    if args.replay:
        try:
            kind = json.load(open(args.replay)).get("kind")
        except Exception:
            kind = None
        if kind == "standin":
            key = json.load(open(args.replay))["standin"]
            env = dict(os.environ)
            env["PYTHONPATH"] = VERIF
            p = subprocess.run([NATIVE_PY, "-m", "pyvc.run_standin", key, "--repo", repo], capture_output=True, text=True, env=env, cwd=VERIF)
            print(p.stdout.strip())
            r = json.loads(p.stdout.strip().splitlines()[-1])
            if r.get("failures"):
                print("VIOLATION property=%s replay=%s" % (args.prop, args.replay))
                return 1
            return 0
        r = native_replay(os.path.abspath(args.replay), repo)
        print(json.dumps(r, indent=1))
        if r.get("reproduced"):
            print("VIOLATION property=%s replay=%s" % (args.prop, args.replay))
            return 1
        return 0 if "error" not in r else 3

    try:
        registry = _load_registry()
        entry = registry.PROPERTIES[args.prop]
    except KeyError:
        print("unknown property " + args.prop)
        return 3
    except Exception:
        traceback.print_exc()
        return 3

    kf_all = parse_known_findings(os.path.join(VERIF, "KNOWN_FINDINGS.txt"))
    kf = [f for f in kf_all if f.get("property") == args.prop and f["kind"] == "finding"]
    kf_ids = kf

    timeout_ms = 20000 if tier == "quick" else 120000
    tasks = []
    for modname in entry["modules"]:
        mod = importlib.import_module(modname)
        for c in list(getattr(mod, "CONTRACTS", [])) + list(getattr(mod, "LEMMAS", [])):
            if args.prop not in c.props:
                continue
            if args.only and args.only not in c.name:
                continue
            tasks.append((modname, c.name, repo, timeout_ms, kf_ids, 2 if tier == "thorough" else 0))
    if not tasks:
        print("checker fault: zero obligations registered for " + args.prop)
        return 3

    results = run_tasks(tasks, args.jobs)

    head, dirty = repo_fingerprint(repo)
    replay_dir = os.path.join(VERIF, "replays", args.prop)
    os.makedirs(replay_dir, exist_ok=True)

    # ---------------------------------------------------------------- aggregate
    ob = {}            # name -> dict(status, time, solver, instances)
    faults, undecided, violations = [], [], []
    n_paths = 0
    solver_time = 0.0
    by_backend = {"z3": 0, "cvc5": 0, "fold": 0, "z3+cvc5": 0}
    functions = []
    vacuity = {"checked": 0, "ok": 0}
    for r in results:
        functions.append(r.get("target"))
        n_paths += r["paths"]
        solver_time += r["solver_time"]
        if r["error"]:
            faults.append("%s: %s" % (r["item"], r["error"].strip().splitlines()[-1]))
            continue
        vacuity["checked"] += 1
        if "pre" in r["covered"]:
            vacuity["ok"] += 1
        else:
            faults.append("%s: precondition unsatisfiable (vacuous contract)" % r["item"])
        if r["truncated"]:
            undecided.append("%s: path / time budget exhausted (unbounded path tree?)" % r["item"])
        for u in r["unsupported"]:
            undecided.append("%s: outside the verified subset: %s" % (r["item"], u))
        for u in r["side_unknown"]:
            undecided.append("%s: %s" % (r["item"], u))
        if not r["obligations"]:
            faults.append("%s: generated zero obligations" % r["item"])
        for o in r["obligations"]:
            d = ob.setdefault(o["name"], {"status": "unsat", "time": 0.0, "instances": 0, "item": r["item"],
                                          "module": r["module"], "sat": [], "solver": set(), "kind": r["kind"],
                                          "expect_sat": r.get("expect_sat", False), "replayable": r.get("replayable", True)})
            d["instances"] += 1
            d["time"] += o["time"]
            d["solver"].add(o["solver"])
            by_backend[o["solver"]] = by_backend.get(o["solver"], 0) + 1
            if o["status"] == "sat":
                d["status"] = "sat"
                d["sat"].append(o)
            elif o["status"] == "unknown" and d["status"] != "sat":
                d["status"] = "unknown"

    discharged = 0
    total = len(ob)
    vio_lines = []
    kf_lines = []
    samples = []
    for name in sorted(ob):
        d = ob[name]
        if d["expect_sat"]:
            # vacuity guard lemma: must be refutable
            if d["status"] == "sat":
                discharged += 1
            else:
                faults.append("%s: vacuity guard is not refutable" % name)
            continue
        if d["status"] == "unsat":
            discharged += 1
            if len(samples) < 6:
                samples.append({"obligation": name, "item": d["item"], "path_instances": d["instances"],
                                "solver": sorted(d["solver"]), "time_s": round(d["time"], 3), "result": "unsat (discharged)"})
            continue
        if d["status"] == "unknown":
            undecided.append("%s: solver returned unknown" % name)
            continue
        # sat: write replay file, replay natively
        o = d["sat"][0]
        rp = os.path.join(replay_dir, name.replace("/", "_") + ".json")
        payload = {"property": args.prop, "obligation": name, "item": d["item"], "module": d["module"],
                   "kind": d["kind"], "values": o["model"], "info": o["info"], "path": o["path"],
                   "repo_head": head, "repo_dirty": dirty,
                   "solver_output": "sat (z3 %s); model in 'values'" % _z3_version()}
        with open(rp, "w") as f:
            json.dump(payload, f, indent=1, default=str)
        rel = os.path.relpath(rp, VERIF)
        if d["kind"] == "lemma":
            nr = native_replay(rp, repo)
            tag = "" if nr.get("reproduced") else " no-failing-input-found"
            violations.append(name)
            vio_lines.append("VIOLATION property=%s replay=%s%s" % (args.prop, rel, tag))
            continue
        if not d["replayable"]:
            payload["native"] = {"reproduced": False, "skipped": "callees abstracted by contract: the counter-model has no native run"}
            with open(rp, "w") as f:
                json.dump(payload, f, indent=1, default=str)
            violations.append(name)
            vio_lines.append("VIOLATION property=%s replay=%s no-failing-input-found" % (args.prop, rel))
            continue
        nr = native_replay(rp, repo)
        payload["native"] = nr
        with open(rp, "w") as f:
            json.dump(payload, f, indent=1, default=str)
        if nr.get("reproduced"):
            violations.append(name)
            vio_lines.append("VIOLATION property=%s replay=%s" % (args.prop, rel))
        elif nr.get("error"):
            # obligation discharged on the unchanged tree now fails and the model could not be
            # replayed natively: still a violation of a named obligation
            violations.append(name)
            vio_lines.append("VIOLATION property=%s replay=%s no-failing-input-found" % (args.prop, rel))
        else:
            undecided.append("%s: counter-model does not reproduce natively (abstraction artefact?)" % name)

    # ---------------------------------------------------------------- bounded native stand-ins (never counted as proved)
    standin_results = []
    for key in entry.get("standins", []):
        env = dict(os.environ)
        env["PYTHONPATH"] = VERIF
        env["PYTHONDONTWRITEBYTECODE"] = "1"
        try:
            p = subprocess.run([NATIVE_PY, "-m", "pyvc.run_standin", key, "--repo", repo], capture_output=True, text=True,
                               timeout=600, env=env, cwd=VERIF)
            r = json.loads(p.stdout.strip().splitlines()[-1])
        except Exception as e:  # noqa
            r = {"name": key, "ok": False, "error": repr(e), "failures": [], "evaluations": 0}
        standin_results.append(r)
        if r.get("error"):
            faults.append("stand-in %s crashed: %s" % (key, str(r["error"]).strip().splitlines()[-1]))
        elif r.get("failures"):
            rp = os.path.join(replay_dir, "standin." + key.split(":")[-1] + ".json")
            with open(rp, "w") as f:
                json.dump({"property": args.prop, "obligation": "standin:" + key, "kind": "standin", "standin": key,
                           "failing_inputs": r["failures"], "bound": r.get("bound")}, f, indent=1, default=str)
            violations.append("standin:" + key)
            vio_lines.append("VIOLATION property=%s replay=%s" % (args.prop, os.path.relpath(rp, VERIF)))

    # ---------------------------------------------------------------- thorough tier: engine-vs-CPython differential
    differential = None
    if tier == "thorough":
        try:
            p = subprocess.run([sys.executable, "-m", "pyvc.differential", args.prop, "--n", "4", "--repo", repo],
                               capture_output=True, text=True, timeout=1800, cwd=VERIF)
            differential = json.loads(p.stdout.strip().splitlines()[-1])
            if differential.get("disagreements"):
                faults.append("engine-vs-CPython differential: %d disagreements (VC generator unsound for that input)" % differential["disagreements"])
        except Exception as e:  # noqa
            differential = {"error": repr(e)}

    # ---------------------------------------------------------------- known findings: witnesses
    for f in kf:
        w = f.get("witness")
        if not w:
            continue
        wp = os.path.join(VERIF, w)
        nr = native_replay(wp, repo)
        if nr.get("reproduced"):
            kf_lines.append("KNOWN-FINDING: property=%s %s" % (args.prop, f.get("what", "")))
        else:
            # the listed defect no longer reproduces: the exclusion must go (reported, not fatal)
            print("note: known finding %s no longer reproduces (%s); its exclusion is stale" % (f.get("id"), nr.get("error", "passes")))

    wall = time.time() - t_start
    # ---------------------------------------------------------------- evidence
    status = "held"
    code = 0
    if faults:
        status, code = "checker-fault", 3
    if undecided and code == 0:
        status, code = "undecided", 2
    if violations:
        status, code = "violation", 1
    ev = {
        "property_id": args.prop, "tier": tier, "seed": seed, "level": entry.get("level", "proof"),
        "coverage": {
            "obligations": total, "discharged": discharged,
            "checker_cmd": "bin/check %s --tier %s  (pyvc: AST->VC generator over %s; z3 %s in-process, /usr/bin/cvc5 for z3's unknowns)" % (
                args.prop, tier, repo, _z3_version()),
            "trusted_base": entry.get("trusted_base", []),
            "samples": samples or [{"obligation": n, "result": ob[n]["status"]} for n in sorted(ob)[:4]],
            "functions_under_contract": sorted(set(x for x in functions if x)),
            "items": len(results), "slowest_items_s": sorted([(round(r.get("wall", 0), 1), r["item"]) for r in results], reverse=True)[:5],
            "paths": n_paths, "vc_instances": sum(d["instances"] for d in ob.values()),
            "by_backend": by_backend, "solver_time_s": round(solver_time, 2),
            "vacuity_checks": vacuity,
            "undecided": undecided, "faults": faults, "violated_obligations": violations,
            "known_findings": [f.get("id") for f in kf],
            "differential": differential,
            "assumption_scan": assumption_scan(entry, args.prop),
            "auto_inlined_private_helpers": sorted(set(c[len("auto-inline "):] for r in results for c in r["covered"] if c.startswith("auto-inline "))),
            "bounded_standins": entry.get("bounded_standins", []),
            "bounded_standin_runs": [{"name": r.get("name"), "bound": r.get("bound"), "evaluations": r.get("evaluations"),
                                      "failures": len(r.get("failures") or [])} for r in standin_results],
            "not_decided_clauses": entry.get("not_decided", []),
            "status": status, "repo_head": head, "repo_dirty": dirty,
            "explanation": entry.get("explanation", ""),
        },
        "assumptions": entry.get("assumptions", []),
        "wall_s": round(wall, 2),
        "violations": len(violations),
    }
    if not args.no_evidence and not args.only:
        evdir = args.evidence_dir or os.path.join(VERIF, "evidence")
        os.makedirs(evdir, exist_ok=True)
        with open(os.path.join(evdir, args.prop + ".json"), "w") as f:
            json.dump(ev, f, indent=1, default=str)

    print("%s: %d obligations, %d discharged, %d paths, %.1fs wall, solver %.1fs  [%s]" % (
        args.prop, total, discharged, n_paths, wall, solver_time, status))
    for line in kf_lines:
        print(line)
    for u in undecided[:40]:
        print("UNDECIDED " + u)
    for u in faults[:40]:
        print("FAULT " + u)
    for line in vio_lines:
        print(line)
    return code


def assumption_scan(entry, prop):
    """mechanical scan of the contracts used by a property (DESIGN 2.8): inlined callees, callees
    replaced by reference functions, abstraction functions (assume-post), oracle havoc, opaque
    functions, non-replayable contracts, loop invariants, bounded case splits"""
    import ast
    import inspect
    inl, refs, absf, nonrep, loops, splits = set(), set(), set(), [], [], []
    loops_v = []
    uf = set()
    for modname in entry["modules"]:
        mod = importlib.import_module(modname)
        src = inspect.getsource(mod)
        tree = ast.parse(src)
        fn_assumes = {}
        for node in ast.walk(tree):
            if isinstance(node, ast.FunctionDef):
                for sub in ast.walk(node):
                    if isinstance(sub, ast.Call) and isinstance(sub.func, ast.Name):
                        if sub.func.id == "assume":
                            fn_assumes[node.name] = fn_assumes.get(node.name, 0) + 1
                        if sub.func.id == "uf_bytes":
                            uf.add(modname + ":" + node.name)
        for c in getattr(mod, "CONTRACTS", []):
            if prop not in c.props:
                continue
            for callee, dec in c.policy.items():
                if dec == "inline":
                    inl.add(callee)
                elif dec.startswith("ref:"):
                    tgt = dec[4:].split("|")[0]
                    refs.add("%s -> %s" % (callee, tgt))
                    fn = tgt.split(":")[-1]
                    if fn.startswith("abs_") or fn_assumes.get(fn):
                        absf.add(tgt)
            if not c.replayable:
                nonrep.append(c.name)
            for k, ls in c.loops.items():
                (loops_v if ls.variant else loops).append("%s loop %d" % k)
    return {
        "inlined_callees (verified as part of the caller, not by contract)": sorted(inl),
        "callees_replaced_by_reference_function": sorted(refs),
        "abstraction_functions (assert-pre / havoc / ASSUME-post)": sorted(absf),
        "opaque_uninterpreted_functions": sorted(uf),
        "contracts_without_native_replay": sorted(set(nonrep)),
        "loops_by_invariant (termination argued, not mechanised)": sorted(set(loops) - set(loops_v)),
        "loops_by_invariant_with_VARIANT (termination discharged as <loop>.variant, relative to A-CLK-PROGRESS: time advances from one turn of a loop to the next)": sorted(set(loops_v)),
    }


def _z3_version():
    try:
        import z3
        return z3.get_version_string()
    except Exception:
        return "?"


if __name__ == "__main__":
    sys.exit(main())
