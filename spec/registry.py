"""Property -> spec modules, claimed level, trusted base (read by pyvc.check)."""

A_HW = ("A-HW: nRF24L01+ behaviour behind SPI/CE is the executable contract spec/hw.py "
        "(Product Specification v1.0: Table 20 commands, Table 28 registers, write masks, "
        "W1C status bits, 3-level FIFOs); it is assumed, not verified")
A_INT = "A-INT: integer inputs lie in [-2^62, 2^62); Python ints are BitVec(64) with no-overflow side obligations"
A_SEP = "A-SEP: distinct caller-supplied objects do not alias; callers do not mutate address objects they passed"
ENGINE = "pyvc VC generator (encoding of the Python subset, DESIGN 2.3) and z3 5.1 / cvc5 1.0 soundness"
SPIDEV = "adafruit_bus_device.SPIDevice / digitalio.DigitalInOut: assumed to frame one CSN-low transaction per `with` block and to drive CE"

PROPERTIES = {
    "C03": {
        "modules": ["spec.c03"],
        "level": "proof",
        "trusted_base": [ENGINE, A_HW, A_INT, A_SEP, SPIDEV,
                         "SPI primitives _reg_read/_reg_write/_reg_write_bytes/_reg_read_bytes are inlined into each caller (verified as part of it, not by contract)"],
        "assumptions": [A_HW, A_INT, A_SEP, SPIDEV,
                        "list/tuple arguments of the per-pipe setters are covered for lengths 0..8 (tuples 0..2); longer lists are not covered (bounded in length only)",
                        "start_carrier_wave/stop_carrier_wave on the non-plus variant deliberately desynchronise the shadows (documented) and are outside the claim"],
    },
}
