"""C01.lemma.link -- the two-radio composition, mechanised over the PROVED reference functions.

write() is proved equal to ref_write (C01.write[*]), available()/pipe/any()/read() to their
references (C10.*).  This lemma composes them through A-AIR, written out as an executable model of
ONE over-the-air packet (air_deliver): for every pair of driver states that satisfy Inv and are
configured compatibly in the property's sense, every payload handed to write() on one radio is what
read() returns on the other, padded/truncated/unchanged as the property says, on the pipe whose
address it was sent to, exactly once.  What stays assumed is A-AIR itself (the radio hardware and
the medium); what is machine-checked is that the driver's TX-side encoding and RX-side decoding
agree with each other and with the property under that assumption."""
from pyvc.cdef import Lemma
from pyvc.schema import Int, Bool, Const, Bytes, ByteArray, OneOf
from pyvc.specrt import implies, ite
from spec.rf24_state import rf24_schema, inv
from spec.c01 import ref_write, tx_payload
from spec.c10 import ref_available, ref_any, ref_pipe, ref_read_default
from spec import c20


def rx_address(r, pipe):
    """the 5 address bytes of RX pipe `pipe` as the radio composes them (pipes 2-5 share the upper
    bytes of pipe 1)"""
    first = ite(pipe == 0, r.addr0[0], ite(pipe == 1, r.addr1[0], r.reg[0x0A + ite(pipe >= 2, pipe, 2)]))
    cells = [first]
    for k in range(1, 5):
        cells.append(ite(pipe == 0, r.addr0[k], r.addr1[k]))
    return bytes(cells)


def same_prefix(a, b, n):
    ok = True
    for k in range(5):
        ok = ok and (k >= n or a[k] == b[k])
    return ok


def tx_dynamic(t):
    return (t.reg[0x1D] & 4) != 0 and (t.reg[0x1C] & 1) != 0


def rx_dynamic(r, pipe):
    return (r.reg[0x1D] & 4) != 0 and ((r.reg[0x1C] >> pipe) & 1) != 0


def compatible(tx, rx, pipe):
    """the property's premise: same channel, data rate, CRC, address width, a matching pipe
    address (pipe enabled) and the same payload-length mode (same static length when static)"""
    t = tx._spi.hw
    r = rx._spi.hw
    aw = t.reg[3] + 2
    return (t.reg[5] == r.reg[5] and (t.reg[6] & 0x28) == (r.reg[6] & 0x28) and (t.reg[0] & 0x0C) == (r.reg[0] & 0x0C)
            and t.reg[3] == r.reg[3] and t.reg[3] >= 1
            and ((r.reg[2] >> pipe) & 1) != 0 and same_prefix(rx_address(r, pipe), bytes(t.txaddr), aw)
            and tx_dynamic(t) == rx_dynamic(r, pipe)
            and ((t.reg[0x1C] & 1) != 0) == tx_dynamic(t)          # DYNPD bit 0 without EN_DPL is not a mode
            and implies(not tx_dynamic(t), t.reg[0x11] == r.reg[0x11 + pipe] and t.reg[0x11] >= 1))


def air_deliver(t, r, pipe):
    """A-AIR, one packet: a PTX (powered up, PRIM_RX = 0, CE high) transmits the head of its TX FIFO
    once; a PRX (PRIM_RX = 1, CE high, room in the RX FIFO) listening on the matching pipe stores it
    once with that pipe number and latches RX_DR -- a static-length pipe accepts only a packet of
    exactly RX_PW bytes; the PTX pops the payload and latches TX_DS.  Returns whether it was stored."""
    sending = t.ce and (t.reg[0] & 3) == 2 and t.tx_n > 0 and t.tx_ackpipe[0] < 0
    if not sending:
        return False
    ln = t.tx_len[0]
    data = t.tx_data[0]
    t.tx_len[0] = t.tx_len[1]
    t.tx_data[0] = t.tx_data[1]
    t.tx_noack[0] = t.tx_noack[1]
    t.tx_ackpipe[0] = t.tx_ackpipe[1]
    t.tx_len[1] = t.tx_len[2]
    t.tx_data[1] = t.tx_data[2]
    t.tx_noack[1] = t.tx_noack[2]
    t.tx_ackpipe[1] = t.tx_ackpipe[2]
    t.tx_n = t.tx_n - 1
    t.reg[7] = t.reg[7] | 0x20
    listening = r.ce and (r.reg[0] & 3) == 3 and r.rx_n < 3
    fits = rx_dynamic(r, pipe) or ln == r.reg[0x11 + pipe]
    if not (listening and fits):
        return False
    for i in range(3):
        here = r.rx_n == i
        r.rx_pipe[i] = ite(here, pipe, r.rx_pipe[i])
        r.rx_len[i] = ite(here, ln, r.rx_len[i])
        r.rx_data[i] = ite(here, data, r.rx_data[i])
    r.rx_n = r.rx_n + 1
    r.reg[7] = r.reg[7] | 0x40
    return True


def req_link(tx, rx, buf, pipe, ask_no_ack):
    t = tx._spi.hw
    r = rx._spi.hw
    return (inv(tx) and inv(rx) and compatible(tx, rx, pipe)
            and (t.reg[0] & 3) == 2 and t.tx_n == 0 and (r.reg[0] & 3) == 3 and r.ce and r.rx_n == 0
            and implies(tx_dynamic(t), 1 <= len(buf) and len(buf) <= 32))


def req_link_no_mode(tx, rx, buf, pipe, ask_no_ack):
    """vacuity guard: the same premise WITHOUT 'same payload-length mode' must be refutable"""
    t = tx._spi.hw
    r = rx._spi.hw
    aw = t.reg[3] + 2
    return (inv(tx) and inv(rx) and t.reg[5] == r.reg[5] and t.reg[3] == r.reg[3] and t.reg[3] >= 1
            and ((r.reg[2] >> pipe) & 1) != 0 and same_prefix(rx_address(r, pipe), bytes(t.txaddr), aw)
            and (t.reg[0] & 3) == 2 and t.tx_n == 0 and (r.reg[0] & 3) == 3 and r.ce and r.rx_n == 0
            and t.reg[0x11] >= 1 and implies((t.reg[0x1C] & 1) != 0, 1 <= len(buf) and len(buf) <= 32))


def lemma_link(tx, rx, buf, pipe, ask_no_ack):
    t = tx._spi.hw
    r = rx._spi.hw
    before = bytes(buf)
    want = tx_payload(tx, buf)
    loaded = ref_write(tx, buf, ask_no_ack, False)
    stored = air_deliver(t, r, pipe)
    avail = ref_available(rx)
    on_pipe = ref_pipe(rx)
    width = ref_any(rx)
    got = ref_read_default(rx, None)
    return (loaded == True and stored and avail and on_pipe == pipe and width == len(want)
            and got is not None and bytes(got) == want
            and r.rx_n == 0 and t.tx_n == 0                   # exactly once: nothing left to deliver or to read
            and not ref_available(rx)
            and bytes(buf) == before)                         # the caller's buffer is untouched


def req_link2(tx, rx, buf, buf2, pipe, ask_no_ack):
    t = tx._spi.hw
    return req_link(tx, rx, buf, pipe, ask_no_ack) and implies(tx_dynamic(t), 1 <= len(buf2) and len(buf2) <= 32)


def lemma_link_in_order(tx, rx, buf, buf2, pipe, ask_no_ack):
    """two payloads written back to back are read in the order they were written, each once"""
    t = tx._spi.hw
    r = rx._spi.hw
    want1 = tx_payload(tx, buf)
    want2 = tx_payload(tx, buf2)
    l1 = ref_write(tx, buf, ask_no_ack, False)
    l2 = ref_write(tx, buf2, ask_no_ack, False)
    s1 = air_deliver(t, r, pipe)
    s2 = air_deliver(t, r, pipe)
    a1 = ref_available(rx)
    p1 = ref_pipe(rx)
    got1 = ref_read_default(rx, None)
    a2 = ref_available(rx)
    p2 = ref_pipe(rx)
    got2 = ref_read_default(rx, None)
    return (l1 == True and l2 == True and s1 and s2 and a1 and a2 and p1 == pipe and p2 == pipe
            and got1 is not None and got2 is not None and bytes(got1) == want1 and bytes(got2) == want2
            and r.rx_n == 0 and t.tx_n == 0)


R = "spec.link:"
STATE = {"tx": rf24_schema(p0=Const(None), share="hw_tx"), "rx": rf24_schema(share="hw_rx"),
         "buf": OneOf(Bytes(0, None), ByteArray(0, None)), "pipe": Int(0, 5), "ask_no_ack": Bool()}
LEMMAS = [
    Lemma("C01.lemma.link", STATE, R + "lemma_link", requires=[R + "req_link"], props=["C01"],
          note="composition of write()'s and read()'s proved references through A-AIR (one packet)"),
    Lemma("C01.lemma.link.needs_same_mode", STATE, R + "lemma_link", requires=[R + "req_link_no_mode"], props=["C01"], expect_sat=True,
          note="vacuity guard: without 'same payload-length mode' the statement is refutable"),
]
# ---- C20: "it interoperates with the full driver in both directions"

def req_lite_to_full(tx, rx, buf, pipe, ask_no_ack):
    t = tx._spi.hw
    r = rx._spi.hw
    return (c20.lite_inv(tx) and inv(rx) and compatible(tx, rx, pipe)
            and t.tx_n == 0 and (r.reg[0] & 3) == 3 and r.ce and r.rx_n == 0
            and implies(tx_dynamic(t), 1 <= len(buf) and len(buf) <= 32))


def lemma_lite_to_full(tx, rx, buf, pipe, ask_no_ack):
    """rf24_lite.write() -> air -> RF24.read()"""
    t = tx._spi.hw
    r = rx._spi.hw
    want = tx_payload(tx, buf)
    loaded = c20.l_write(tx, buf, ask_no_ack, False)
    stored = air_deliver(t, r, pipe)
    avail = ref_available(rx)
    on_pipe = ref_pipe(rx)
    width = ref_any(rx)
    got = ref_read_default(rx, None)
    return (loaded == True and stored and avail and on_pipe == pipe and width == len(want)
            and got is not None and bytes(got) == want and r.rx_n == 0 and t.tx_n == 0)


def req_full_to_lite(tx, rx, buf, pipe, ask_no_ack):
    t = tx._spi.hw
    r = rx._spi.hw
    return (inv(tx) and c20.lite_inv(rx) and compatible(tx, rx, pipe)
            and (t.reg[0] & 3) == 2 and t.tx_n == 0 and (r.reg[0] & 3) == 3 and r.ce and r.rx_n == 0
            and implies(tx_dynamic(t), 1 <= len(buf) and len(buf) <= 32))


def lemma_full_to_lite(tx, rx, buf, pipe, ask_no_ack):
    """RF24.write() -> air -> rf24_lite.read()"""
    t = tx._spi.hw
    r = rx._spi.hw
    want = tx_payload(tx, buf)
    loaded = ref_write(tx, buf, ask_no_ack, False)
    stored = air_deliver(t, r, pipe)
    avail = c20.l_available(rx)
    on_pipe = c20.l_pipe(rx)
    width = c20.l_any(rx)
    got = c20.l_read(rx, None)
    return (loaded == True and stored and avail and on_pipe == pipe and width == len(want)
            and got is not None and bytes(got) == want and r.rx_n == 0 and t.tx_n == 0)


BUFS = OneOf(Bytes(0, None), ByteArray(0, None))
LEMMAS += [
    Lemma("C20.lemma.interop.lite_to_full",
          {"tx": c20.lite_schema(p0=Const(None), share="hw_tx"), "rx": rf24_schema(share="hw_rx"), "buf": BUFS, "pipe": Int(0, 5), "ask_no_ack": Bool()},
          R + "lemma_lite_to_full", requires=[R + "req_lite_to_full"], props=["C20"],
          note="the lite driver's write reference composed with the full driver's read references through A-AIR"),
    Lemma("C20.lemma.interop.full_to_lite",
          {"tx": rf24_schema(p0=Const(None), share="hw_tx"), "rx": c20.lite_schema(share="hw_rx"), "buf": BUFS, "pipe": Int(0, 5), "ask_no_ack": Bool()},
          R + "lemma_full_to_lite", requires=[R + "req_full_to_lite"], props=["C20"],
          note="the full driver's write reference composed with the lite driver's read references through A-AIR"),
]
STATE2 = dict(STATE)
STATE2["buf2"] = OneOf(Bytes(0, None), ByteArray(0, None))
LEMMAS.append(Lemma("C01.lemma.link.in_order", STATE2, R + "lemma_link_in_order", requires=[R + "req_link2"], props=["C01"],
                    note="two packets: delivered and read in the order written, each exactly once"))
CONTRACTS = []
