"""run one bounded native stand-in (spec/standins.py) on the real code: prints one JSON line"""
import importlib
import json
import sys
import traceback


def main():
    key = sys.argv[1]
    repo = sys.argv[sys.argv.index("--repo") + 1] if "--repo" in sys.argv else "/repo"
    sys.path.insert(0, repo)
    try:
        modname, _, fn = key.partition(":")
        out = getattr(importlib.import_module(modname), fn)()
        out["ok"] = not out.get("failures")
    except Exception:
        out = {"name": key, "ok": False, "error": traceback.format_exc()[-2000:], "failures": [], "evaluations": 0}
    print(json.dumps(out, default=str))


if __name__ == "__main__":
    main()
