"""Symbolic values for the pyvc verification-condition generator.

Python ints are two's-complement BitVec(64) terms *plus* a conservative interval; every
operation that could leave the 64-bit range records a no-overflow side obligation through the
`overflow hook` unless the interval already rules it out.  Whenever a value is known it stays a
plain Python value, so most control flow folds while the VCs are generated.
"""
import z3

W = 64
MINI = -(1 << 63)
MAXI = (1 << 63) - 1


class SInt:
    __slots__ = ("e", "lo", "hi")

    def __init__(self, e, lo=None, hi=None):
        self.e = e
        self.lo = MINI if lo is None else max(lo, MINI)
        self.hi = MAXI if hi is None else min(hi, MAXI)

    def __repr__(self):
        return "SInt(%s,[%s,%s])" % (self.e, self.lo, self.hi)


class SBool:
    __slots__ = ("e",)

    def __init__(self, e):
        self.e = e

    def __repr__(self):
        return "SBool(%s)" % (self.e,)


class SFloat:
    """Opaque float: only its sign (non-negativity) is tracked -- except for WALL-CLOCK SECONDS
    (time.monotonic() and sums of it with whole seconds), which also carry the ghost clock value in
    nanoseconds (`ns`), so that deadlines computed in float seconds can be compared and used in loop
    variants; rounding of the float representation is ignored (as timer granularity is)."""
    __slots__ = ("nonneg", "ns")

    def __init__(self, nonneg, ns=None):
        self.nonneg = nonneg
        self.ns = ns


class SRatio:
    """a / b (true division) kept exact; only int(), sign tests and sleep() consume it."""
    __slots__ = ("num", "den")

    def __init__(self, num, den):
        self.num = num
        self.den = den


class Unsupported(Exception):
    """Construct outside the verified subset -> UNDECIDED, never a violation."""


_overflow_hook = [None]


def set_overflow_hook(fn):
    _overflow_hook[0] = fn


def _ovf(cond_ok, what):
    """cond_ok: z3 Bool that must hold for the BV result to equal the unbounded result."""
    h = _overflow_hook[0]
    if h is not None:
        h(cond_ok, what)


def is_int(v):
    return isinstance(v, (int, SInt, SBool)) and not isinstance(v, float)


def is_conc(v):
    return isinstance(v, int)


_bvv_cache = {}


def bvv(n):
    v = _bvv_cache.get(n)
    if v is None:
        v = z3.BitVecVal(n, W)
        if -1024 <= n <= 70000:
            _bvv_cache[n] = v
    return v


def bv(v):
    if isinstance(v, bool):
        return bvv(1 if v else 0)
    if isinstance(v, int):
        if not (MINI <= v <= MAXI):
            raise Unsupported("integer constant outside 64 bits: %r" % (v,))
        return bvv(v)
    if isinstance(v, SInt):
        return v.e
    if isinstance(v, SBool):
        return z3.If(v.e, bvv(1), bvv(0))
    raise Unsupported("not an int: %r" % (type(v),))


_refine = {}   # z3 ast id -> (lo, hi): bounds implied by the current path condition


def reset_refinements():
    _refine.clear()


def _num(e):
    return e.as_signed_long() if z3.is_bv_value(e) and e.size() == W else None


def _narrow(e, lo, hi):
    if z3.is_bv_value(e):
        return
    k = e.get_id()
    cur = _refine.get(k)
    if cur is not None:
        lo = cur[1] if lo is None else (lo if cur[1] is None else max(lo, cur[1]))
        hi = cur[2] if hi is None else (hi if cur[2] is None else min(hi, cur[2]))
    _refine[k] = (e, lo, hi)


def refine_from(b, positive=True, depth=0):
    """learn interval facts from a path-condition conjunct (signed comparisons with a numeral)"""
    if depth > 2:
        return
    try:
        if z3.is_not(b):
            return refine_from(b.arg(0), not positive, depth)
        if z3.is_and(b) and positive:
            if b.num_args() <= 12:
                for a in b.children():
                    refine_from(a, True, depth + 1)
            return
        if z3.is_or(b) and not positive:
            if b.num_args() <= 12:
                for a in b.children():
                    refine_from(a, False, depth + 1)
            return
        if not z3.is_app(b) or b.num_args() != 2:
            return
        k = b.decl().kind()
        x, y = b.arg(0), b.arg(1)
        if not z3.is_bv(x) or x.size() != W:
            return
        # normalise to  x OP y  with OP in {<=, <}
        if k == z3.Z3_OP_SGEQ:
            x, y, k = y, x, z3.Z3_OP_SLEQ
        elif k == z3.Z3_OP_SGT:
            x, y, k = y, x, z3.Z3_OP_SLT
        if k == z3.Z3_OP_SLEQ:
            if not positive:       # not (x <= y)  ==  y < x
                x, y, k = y, x, z3.Z3_OP_SLT
        elif k == z3.Z3_OP_SLT:
            if not positive:       # not (x < y)  ==  y <= x
                x, y, k = y, x, z3.Z3_OP_SLEQ
        elif k == z3.Z3_OP_EQ:
            if positive:
                nx, ny = _num(x), _num(y)
                if ny is not None:
                    _narrow(x, ny, ny)
                elif nx is not None:
                    _narrow(y, nx, nx)
            return
        else:
            return
        nx, ny = _num(x), _num(y)
        strict = 1 if k == z3.Z3_OP_SLT else 0
        if ny is not None:
            _narrow(x, None, ny - strict)
        elif nx is not None:
            _narrow(y, nx + strict, None)
    except z3.Z3Exception:
        return


def rng(v):
    if isinstance(v, bool):
        return (int(v), int(v))
    if isinstance(v, int):
        return (v, v)
    if isinstance(v, SInt):
        r = _refine.get(v.e.get_id()) if _refine else None
        if r is not None:
            lo = v.lo if r[1] is None else max(v.lo, r[1])
            hi = v.hi if r[2] is None else min(v.hi, r[2])
            if lo <= hi:
                return (lo, hi)
        return (v.lo, v.hi)
    if isinstance(v, SBool):
        return (0, 1)
    raise Unsupported("not an int: %r" % (type(v),))


def mk(e, lo, hi):
    lo = max(lo, MINI)
    hi = min(hi, MAXI)
    if lo == hi:
        return lo
    if z3.is_bv_value(e):
        return e.as_signed_long()
    return SInt(e, lo, hi)


def bz(v):
    """to z3 Bool"""
    if isinstance(v, bool):
        return z3.BoolVal(v)
    if isinstance(v, SBool):
        return v.e
    raise Unsupported("not a bool: %r" % (v,))


def mkb(e):
    if z3.is_true(e):
        return True
    if z3.is_false(e):
        return False
    return SBool(e)


def b_not(a):
    if isinstance(a, bool):
        return not a
    return mkb(z3.Not(a.e))


def b_and(*xs):
    out = []
    for x in xs:
        if isinstance(x, bool):
            if not x:
                return False
            continue
        out.append(x.e)
    if not out:
        return True
    return mkb(out[0] if len(out) == 1 else z3.And(*out))


def b_or(*xs):
    out = []
    for x in xs:
        if isinstance(x, bool):
            if x:
                return True
            continue
        out.append(x.e)
    if not out:
        return False
    return mkb(out[0] if len(out) == 1 else z3.Or(*out))


def b_implies(a, b):
    return b_or(b_not(a), b)


def b_ite(c, a, b):
    if isinstance(c, bool):
        return a if c else b
    if isinstance(a, bool) and isinstance(b, bool):
        if a == b:
            return a
        return c if a else b_not(c)
    return mkb(z3.If(c.e, bz(a), bz(b)))


def i_ite(c, a, b):
    """ite over ints (bools are coerced only if one side is an int)"""
    if isinstance(c, bool):
        return a if c else b
    if is_conc(a) and is_conc(b) and a == b and type(a) is type(b):
        return a
    if isinstance(a, (bool, SBool)) and isinstance(b, (bool, SBool)):
        return b_ite(c, a, b)
    (al, ah), (bl, bh) = rng(a), rng(b)
    return mk(z3.If(c.e, bv(a), bv(b)), min(al, bl), max(ah, bh))


def truth(v):
    """Python truthiness of an int/bool value"""
    if isinstance(v, bool):
        return v
    if isinstance(v, int):
        return v != 0
    if isinstance(v, SBool):
        return v
    if isinstance(v, SInt):
        if v.lo > 0 or v.hi < 0:
            return True
        return mkb(v.e != bvv(0))
    raise Unsupported("truth of %r" % (type(v),))


def as_int(v):
    """int(v) for bool/int"""
    if isinstance(v, bool):
        return int(v)
    if isinstance(v, SBool):
        return SInt(bv(v), 0, 1)
    return v


# ------------------------------------------------------------------ comparisons

def cmp(op, a, b):
    if is_conc(a) and is_conc(b):
        return {"==": a == b, "!=": a != b, "<": a < b, "<=": a <= b, ">": a > b, ">=": a >= b}[op]
    (al, ah), (bl, bh) = rng(a), rng(b)
    if not is_conc(a) and not is_conc(b) and bv(a).eq(bv(b)):
        return op in ("==", "<=", ">=")
    if op == "<":
        if ah < bl:
            return True
        if al >= bh:
            return False
        return mkb(bv(a) < bv(b))
    if op == "<=":
        if ah <= bl:
            return True
        if al > bh:
            return False
        return mkb(bv(a) <= bv(b))
    if op == ">":
        return cmp("<", b, a)
    if op == ">=":
        return cmp("<=", b, a)
    if op == "==":
        if ah < bl or bh < al:
            return False
        return mkb(bv(a) == bv(b))
    if op == "!=":
        return b_not(cmp("==", a, b))
    raise Unsupported(op)


# ------------------------------------------------------------------ arithmetic

def _fits(lo, hi):
    return MINI <= lo and hi <= MAXI


def add(a, b):
    a, b = as_int(a), as_int(b)
    if is_conc(a) and is_conc(b):
        return a + b
    (al, ah), (bl, bh) = rng(a), rng(b)
    lo, hi = al + bl, ah + bh
    ea, eb = bv(a), bv(b)
    if not _fits(lo, hi):
        _ovf(z3.And(z3.BVAddNoOverflow(ea, eb, True), z3.BVAddNoUnderflow(ea, eb)), "+")
    return mk(ea + eb, lo, hi)


def sub(a, b):
    a, b = as_int(a), as_int(b)
    if is_conc(a) and is_conc(b):
        return a - b
    (al, ah), (bl, bh) = rng(a), rng(b)
    lo, hi = al - bh, ah - bl
    ea, eb = bv(a), bv(b)
    if not _fits(lo, hi):
        _ovf(z3.And(z3.BVSubNoOverflow(ea, eb), z3.BVSubNoUnderflow(ea, eb, True)), "-")
    return mk(ea - eb, lo, hi)


def neg(a):
    return sub(0, a)


def mul(a, b):
    a, b = as_int(a), as_int(b)
    if is_conc(a) and is_conc(b):
        return a * b
    if is_conc(a) and a == 0 or is_conc(b) and b == 0:
        return 0
    (al, ah), (bl, bh) = rng(a), rng(b)
    c = [al * bl, al * bh, ah * bl, ah * bh]
    lo, hi = min(c), max(c)
    ea, eb = bv(a), bv(b)
    if not _fits(lo, hi):
        _ovf(z3.And(z3.BVMulNoOverflow(ea, eb, True), z3.BVMulNoUnderflow(ea, eb)), "*")
    return mk(ea * eb, lo, hi)


def _pow2above(n):
    """smallest 2^k - 1 >= n (n >= 0)"""
    return (1 << n.bit_length()) - 1


def band(a, b):
    a, b = as_int(a), as_int(b)
    if is_conc(a) and is_conc(b):
        return a & b
    (al, ah), (bl, bh) = rng(a), rng(b)
    if al >= 0 and bl >= 0:
        lo, hi = 0, min(ah, bh)
    elif al >= 0:
        lo, hi = 0, ah
    elif bl >= 0:
        lo, hi = 0, bh
    else:
        lo, hi = MINI, MAXI
    return mk(bv(a) & bv(b), lo, hi)


def bor(a, b):
    a, b = as_int(a), as_int(b)
    if is_conc(a) and is_conc(b):
        return a | b
    (al, ah), (bl, bh) = rng(a), rng(b)
    if al >= 0 and bl >= 0:
        lo, hi = max(al, bl), _pow2above(max(ah, bh))
    else:
        lo, hi = MINI, MAXI
        if al < 0 and ah < 0 or bl < 0 and bh < 0:
            hi = -1
    return mk(bv(a) | bv(b), lo, hi)


def bxor(a, b):
    a, b = as_int(a), as_int(b)
    if is_conc(a) and is_conc(b):
        return a ^ b
    (al, ah), (bl, bh) = rng(a), rng(b)
    if al >= 0 and bl >= 0:
        lo, hi = 0, _pow2above(max(ah, bh))
    else:
        lo, hi = MINI, MAXI
    return mk(bv(a) ^ bv(b), lo, hi)


def binv(a):
    a = as_int(a)
    if is_conc(a):
        return ~a
    lo, hi = rng(a)
    return mk(~bv(a), -hi - 1, -lo - 1)


def shl(a, b, neg_shift):
    """a << b ; neg_shift(cond) is called with the condition under which Python raises."""
    a, b = as_int(a), as_int(b)
    (bl, bh) = rng(b)
    if bl < 0:
        neg_shift(cmp("<", b, 0))
        bl = 0
    if is_conc(a) and is_conc(b):
        return a << b
    (al, ah) = rng(a)
    if bh > 62:
        # result must fit: require b <= 62 and the round trip property
        ea, eb = bv(a), bv(b)
        r = ea << eb
        _ovf(z3.And(eb <= bvv(62), (r >> eb) == ea), "<<")
        return mk(r, MINI, MAXI)
    c = [al << bl, al << bh, ah << bl, ah << bh]
    lo, hi = min(c), max(c)
    ea, eb = bv(a), bv(b)
    r = ea << eb
    if not _fits(lo, hi):
        _ovf((r >> eb) == ea, "<<")
    return mk(r, lo, hi)


def shr(a, b, neg_shift):
    a, b = as_int(a), as_int(b)
    (bl, bh) = rng(b)
    if bl < 0:
        neg_shift(cmp("<", b, 0))
        bl = 0
    if is_conc(a) and is_conc(b):
        return a >> b
    (al, ah) = rng(a)
    sh_lo, sh_hi = min(bl, 64), min(bh, 64)
    c = [al >> sh_lo, al >> sh_hi, ah >> sh_lo, ah >> sh_hi]
    return mk(bv(a) >> bv(b), min(c), max(c))


def mod(a, b, zero_div):
    """Python floor modulo"""
    a, b = as_int(a), as_int(b)
    (bl, bh) = rng(b)
    if bl <= 0 <= bh:
        zero_div(cmp("==", b, 0))
    if is_conc(a) and is_conc(b):
        return a % b
    if is_conc(b) and b > 0 and (b & (b - 1)) == 0:
        # positive power of two: Python's floor modulo is the low bits (exact for every int)
        return band(a, b - 1)
    if bl > 0:
        lo, hi = 0, bh - 1
        (al, ah) = rng(a)
        if al >= 0:
            hi = min(hi, ah)
    elif bh < 0:
        lo, hi = bl + 1, 0
    else:
        lo, hi = MINI, MAXI
    # z3 bvsmod: sign follows divisor == Python %
    # z3py '%' on BitVec is bvsmod (sign follows divisor), which is Python's %
    return mk(bv(a) % bv(b), lo, hi)


def floordiv(a, b, zero_div):
    a, b = as_int(a), as_int(b)
    (bl, bh) = rng(b)
    if bl <= 0 <= bh:
        zero_div(cmp("==", b, 0))
    if is_conc(a) and is_conc(b):
        return a // b
    if is_conc(b) and b > 0 and (b & (b - 1)) == 0:
        # positive power of two: floor division is the arithmetic shift (exact for every int)
        return shr(a, b.bit_length() - 1, lambda c: None)
    ea, eb = bv(a), bv(b)
    q = ea / eb  # bvsdiv: truncating
    r = z3.SRem(ea, eb)
    adj = z3.And(r != bvv(0), (r < bvv(0)) != (eb < bvv(0)))
    res = z3.If(adj, q - bvv(1), q)
    (al, ah) = rng(a)
    if bl > 0:
        c = [al // bl, al // bh, ah // bl, ah // bh]
        lo, hi = min(c), max(c)
    else:
        lo, hi = MINI, MAXI
        _ovf(z3.Not(z3.And(ea == bvv(MINI), eb == bvv(-1))), "//")
    return mk(res, lo, hi)


def truncdiv(a, b, zero_div):
    """int(a / b): exact when |a| < 2**53 (side obligation) -- truncation toward zero."""
    a, b = as_int(a), as_int(b)
    (bl, bh) = rng(b)
    if bl <= 0 <= bh:
        zero_div(cmp("==", b, 0))
    if is_conc(a) and is_conc(b):
        return int(a / b)
    (al, ah) = rng(a)
    lim = 1 << 52
    if al < -lim or ah > lim:
        _ovf(z3.And(bv(a) >= bvv(-lim), bv(a) <= bvv(lim)), "int(a/b) float exactness")
    ea, eb = bv(a), bv(b)
    if bl > 0 or bh < 0:
        c = [int(x / y) for x in (al, ah) for y in (bl, bh)] if abs(al) < (1 << 60) and abs(ah) < (1 << 60) else [MINI, MAXI]
        lo, hi = min(c + [0]) if al <= 0 <= ah else min(c), max(c + [0]) if al <= 0 <= ah else max(c)
    else:
        lo, hi = MINI, MAXI
    return mk(ea / eb, lo, hi)


def imin(a, b):
    a, b = as_int(a), as_int(b)
    if is_conc(a) and is_conc(b):
        return min(a, b)
    (al, ah), (bl, bh) = rng(a), rng(b)
    if ah <= bl:
        return a
    if bh < al:
        return b
    # Python's min returns the first minimal element; for ints that is the same value
    return mk(z3.If(bv(b) < bv(a), bv(b), bv(a)), min(al, bl), min(ah, bh))


def imax(a, b):
    a, b = as_int(a), as_int(b)
    if is_conc(a) and is_conc(b):
        return max(a, b)
    (al, ah), (bl, bh) = rng(a), rng(b)
    if al >= bh:
        return a
    if bl > ah:
        return b
    return mk(z3.If(bv(b) > bv(a), bv(b), bv(a)), max(al, bl), max(ah, bh))


def iabs(a):
    a = as_int(a)
    if is_conc(a):
        return abs(a)
    (al, ah) = rng(a)
    if al >= 0:
        return a
    n = neg(a)
    if ah <= 0:
        return n
    return mk(z3.If(bv(a) < bvv(0), bv(n), bv(a)), 0, max(-al, ah))
