"""Run-time (native CPython) meaning of the specification helpers.  Spec modules import these
names; the symbolic front end intercepts the same names as built-ins ($implies, $ite, ...)."""

_ORACLE = {"values": [], "k": 0}
_ENTRY = {"ids": set()}


def implies(a, b):
    return (not a) or bool(b)


def ite(c, a, b):
    return a if c else b


def forall(lo, hi, fn):
    return all(fn(i) for i in range(lo, hi))


def oracle_int(lo, hi):
    k = _ORACLE["k"]
    _ORACLE["k"] = k + 1
    vals = _ORACLE["values"]
    v = vals[k] if k < len(vals) else lo
    return max(lo, min(hi, v))


def set_oracle(values):
    _ORACLE["values"] = list(values)
    _ORACLE["k"] = 0


def same_object(a, b):
    return a is b


def mark_entry(objs):
    _ENTRY["ids"] = set(id(o) for o in objs)


def is_fresh(o):
    if o is None or isinstance(o, (int, bool, bytes, str, tuple)):
        return True
    return id(o) not in _ENTRY["ids"]


def bytes_of(b):
    return bytes(b)


def unreachable():
    raise AssertionError("spec: unreachable")


def require(cond, what="pre"):
    """callee precondition (proved at call sites by the engine; asserted natively)"""
    if not cond:
        raise AssertionError("callee precondition violated: " + what)


def assume(cond):
    """assume-post of an abstracted callee: meaningless natively (the real callee runs)"""
    return None


def uf_bytes(name, fn, data, maxlen, outlen):
    """fn(data); the engine keeps it opaque (congruence only) for symbolic data"""
    return fn(data)


def class_attr(key, name):
    """value of a class attribute of a repository class (engine only: contracts that use it are
    not replayed natively)"""
    raise NotImplementedError("class_attr is an engine-only helper")


def set_class_attr(key, name, value):
    raise NotImplementedError("set_class_attr is an engine-only helper")


def clock_now():
    """the value the last time.monotonic_ns() call returned (engine only)"""
    raise NotImplementedError("clock_now is an engine-only helper")


def clock_ns_of(x):
    """the ghost-clock value (ns) of a wall-clock float (engine only)"""
    raise NotImplementedError("clock_ns_of is an engine-only helper")
