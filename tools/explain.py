"""debug helper: replay a counter-model natively and print a compact pre/post diff
usage: PYTHONPATH=/verif /venv/bin/python tools/explain.py replays/.../x.json [--repo DIR]"""
import copy, importlib, json, sys
sys.path.insert(0, '/verif')
repo = '/repo'
if '--repo' in sys.argv: repo = sys.argv[sys.argv.index('--repo')+1]
sys.path.insert(0, repo)
from pyvc import replay_native as rn, schema as S, specrt
payload = json.load(open(sys.argv[1]))
mod = importlib.import_module(payload['module'])
c = [c for c in mod.CONTRACTS if c.name == payload['item']][0]
values = payload['values']
small = {k: v for k, v in values.items() if not isinstance(v, list) and '_in[' not in k and '_out[' not in k and 'data' not in k and 'ackpl[' not in k}
print("inputs:", small)
orc = [values.get("oracle[%d]" % k) for k in range(4096) if ("oracle[%d]" % k) in values]
print("oracle:", orc)
specrt.set_oracle(orc)
import time as _t
_t.sleep = lambda d: None
shared = {}
vals = {k: S.build_native(node, k, values, shared) for k, node in c.state.items()}
for sk in getattr(c, 'setup', []): rn.call_by_name(rn.get_spec(sk), vals)
def dump(o, pre=''):
    out = {}
    for k, v in vars(o).items():
        if k in ('_in', '_out'): out[pre+k+'[0]'] = v[0]; continue
        if hasattr(v, '__dict__') and not isinstance(v, type):
            out.update(dump(v, pre+k+'.'))
        else:
            out[pre+k] = copy.deepcopy(v)
    return out
order = [k for k in c.state if k not in getattr(c, 'ghost', [])]
pre = {k: dump(v, k+'.') if hasattr(v, '__dict__') else {k: copy.deepcopy(v)} for k, v in vals.items()}
for r in c.requires: print("requires", r, rn.call_by_name(rn.get_spec(r), vals))
olds = copy.deepcopy(vals)
try:
    res = rn.get_target(c.target)(*[vals[k] for k in order], **c.call_kwargs); print("result:", repr(res)[:200])
except Exception as e:
    import traceback; traceback.print_exc(); res = None
post = {k: dump(v, k+'.') if hasattr(v, '__dict__') else {k: v} for k, v in vals.items()}
for k in pre:
    for f in pre[k]:
        if f.endswith('.hw.reg') :
            a, b = pre[k][f], post[k].get(f)
            d = {hex(i): (a[i], b[i]) for i in range(len(a)) if a[i] != b[i]}
            if d: print("  ", f, "changed", d)
        elif pre[k][f] != post[k].get(f):
            print("  ", f, ":", repr(pre[k][f])[:80], "->", repr(post[k].get(f))[:80])
env = dict(vals); env.update({'old_'+k: v for k, v in olds.items()}); env['result'] = res; env['exc'] = None
for n, pk in c.ensures:
    try: print("ensures", n, rn.call_by_name(rn.get_spec(pk), env))
    except Exception as e: print("ensures", n, "error", e)
