"""Symbolic pre-state of an RF24 driver object attached to the assumed radio (A-HW), the
representation invariant Inv (DESIGN C03) and the abstract view used to compare body and
reference."""
from pyvc.schema import Int, Bool, Const, Bytes, ByteArray, ListOf, Obj, Opt, OneOf, Share
from pyvc.specrt import implies, ite


def radio_schema(ce=None, plain=False, env=None, share="hw"):
    f = {
        "reg": ListOf([Int(0, 255) for _ in range(0x1E)]),
        "addr0": ByteArray(5, 5), "addr1": ByteArray(5, 5), "txaddr": ByteArray(5, 5),
        "rx_n": Int(0, 3), "rx_pipe": ListOf([Int(0, 5) for _ in range(3)]),
        "rx_len": ListOf([Int(1, 32) for _ in range(3)]),
        "rx_data": ListOf([Bytes(32, 32) for _ in range(3)]),
        "tx_n": Int(0, 3), "tx_len": ListOf([Int(1, 32) for _ in range(3)]),
        "tx_data": ListOf([Bytes(32, 32) for _ in range(3)]),
        "tx_noack": ListOf([Bool() for _ in range(3)]),
        "tx_ackpipe": ListOf([Int(-1, 5) for _ in range(3)]),
        "ce": Bool() if ce is None else Const(ce),
        "bad_write": Const(False), "frames": Const(0), "ce_log": Const(0),
        "activates": Const(0), "loaded": Const(0),
        # PTX engine ghost (inert unless env_on)
        "env_on": Const(False), "inflight": Const(False), "budget": Const(0), "att_n": Const(0), "att_txn": Const(0),
        "att_len": Const(0), "att_data": Const(bytes(32)), "n_ds": Const(0), "n_rt": Const(0), "ack_rx": Const(0),
        "ackpl": Const(bytes(32)),
    }
    if env:
        f.update(env)
    return Share(share, Obj("spec.hw:Radio", f))


def rf24_schema(cls="rf24:RF24", p0=None, extra=None, env=None, share="hw"):
    fields = {
        "_in": ByteArray(97, 97), "_out": ByteArray(97, 97),
        "_ce_pin": Obj("spec.hw:Pin", {"hw": radio_schema(env=env, share=share)}),
        "_spi": Obj("spec.hw:SpiStub", {"hw": radio_schema(env=env, share=share)}),
        "_pipes": ListOf([ByteArray(5, 5), ByteArray(5, 5), Int(0, 255), Int(0, 255), Int(0, 255), Int(0, 255)]),
        "_config": Int(0, 255), "_open_pipes": Int(0, 255), "_is_plus_variant": Const(True),
        "_features": Int(0, 255),
        "_pipe0_read_addr": p0 if p0 is not None else OneOf(Const(None), Bytes(1, 5), ByteArray(1, 5)),
        "_tx_address": ByteArray(5, 5),
        "_retry_setup": Int(0, 255), "_rf_setup": Int(0, 255), "_dyn_pl": Int(0, 255), "_aa": Int(0, 255),
        "_channel": Int(0, 255), "_addr_len": Int(2, 5),
        "_pl_len": ListOf([Int(1, 32) for _ in range(6)]),
    }
    if extra:
        fields.update(extra)
    return Obj(cls, fields)


# ---------------------------------------------------------------------------------- Inv

def hw_of(self):
    return self._spi.hw


def hw_ranges(hw):
    """datasheet ranges of the configuration registers (Table 28): reserved bits read 0"""
    r = hw.reg
    return (r[0] <= 0x7F and r[1] <= 0x3F and r[2] <= 0x3F and r[3] <= 3 and r[5] <= 0x7F
            and (r[6] & 0x40) == 0 and (r[7] & 0x8F) == 0
            and r[0x11] <= 0x3F and r[0x12] <= 0x3F and r[0x13] <= 0x3F
            and r[0x14] <= 0x3F and r[0x15] <= 0x3F and r[0x16] <= 0x3F
            and (r[0x17] & 0xBF) == 0 and r[0x1C] <= 0x3F and r[0x1D] <= 7
            and not hw.bad_write)


def inv(self):
    """the shadow attributes equal the registers they cache (C03's `cached view == radio`)"""
    hw = self._spi.hw
    r = hw.reg
    return (hw_ranges(hw)
            and self._config == r[0] and self._aa == r[1] and self._open_pipes == r[2]
            and self._addr_len - 2 == r[3] and self._retry_setup == r[4] and self._channel == r[5]
            and self._rf_setup == r[6] and self._dyn_pl == r[0x1C] and self._features == r[0x1D]
            and self._pl_len[0] == r[0x11] and self._pl_len[1] == r[0x12] and self._pl_len[2] == r[0x13]
            and self._pl_len[3] == r[0x14] and self._pl_len[4] == r[0x15] and self._pl_len[5] == r[0x16]
            and self._pipes[0] == hw.addr0 and self._pipes[1] == hw.addr1
            and self._pipes[2] == r[0x0C] and self._pipes[3] == r[0x0D]
            and self._pipes[4] == r[0x0E] and self._pipes[5] == r[0x0F]
            and self._tx_address == hw.txaddr
            and self._channel <= 125
            and self._ce_pin.hw is hw)


def view_cfg(self):
    """everything a configuration call could touch: all shadows, the whole register file, the
    address registers, FIFO occupancy/contents, CE and the reserved-write ghost flag"""
    hw = self._spi.hw
    r = hw.reg
    return (
        ("_config", self._config), ("_aa", self._aa), ("_open_pipes", self._open_pipes),
        ("_addr_len", self._addr_len), ("_retry_setup", self._retry_setup), ("_channel", self._channel),
        ("_rf_setup", self._rf_setup), ("_dyn_pl", self._dyn_pl), ("_features", self._features),
        ("_pl_len", (self._pl_len[0], self._pl_len[1], self._pl_len[2], self._pl_len[3], self._pl_len[4], self._pl_len[5])),
        ("_pipes[0]", bytes(self._pipes[0])), ("_pipes[1]", bytes(self._pipes[1])),
        ("_pipes[2..5]", (self._pipes[2], self._pipes[3], self._pipes[4], self._pipes[5])),
        ("_tx_address", bytes(self._tx_address)),
        ("_pipe0_read_addr", self._pipe0_read_addr),
    ) + hw_view(hw)


def hw_view(hw):
    """the radio itself: whole register file, address registers, FIFOs, CE, ghost flags"""
    r = hw.reg
    return (
        ("CONFIG", r[0]), ("EN_AA", r[1]), ("EN_RXADDR", r[2]), ("SETUP_AW", r[3]), ("SETUP_RETR", r[4]),
        ("RF_CH", r[5]), ("RF_SETUP", r[6]), ("STATUS.latches", r[7]), ("OBSERVE_TX", r[8]), ("RPD", r[9]),
        ("RX_ADDR_P0", bytes(hw.addr0)), ("RX_ADDR_P1", bytes(hw.addr1)),
        ("RX_ADDR_P2..5", (r[0x0C], r[0x0D], r[0x0E], r[0x0F])), ("TX_ADDR", bytes(hw.txaddr)),
        ("RX_PW", (r[0x11], r[0x12], r[0x13], r[0x14], r[0x15], r[0x16])),
        ("FIFO_STATUS.reuse", r[0x17]), ("DYNPD", r[0x1C]), ("FEATURE", r[0x1D]),
        ("rx_fifo", (hw.rx_n, hw.rx_pipe[0], hw.rx_pipe[1], hw.rx_pipe[2], hw.rx_len[0], hw.rx_len[1], hw.rx_len[2],
                     hw.rx_data[0], hw.rx_data[1], hw.rx_data[2])),
        ("tx_fifo", (hw.tx_n, hw.tx_len[0], hw.tx_len[1], hw.tx_len[2], hw.tx_data[0], hw.tx_data[1], hw.tx_data[2],
                     hw.tx_noack[0], hw.tx_noack[1], hw.tx_noack[2], hw.tx_ackpipe[0], hw.tx_ackpipe[1], hw.tx_ackpipe[2],
                     hw.loaded)),
        ("CE", hw.ce), ("role_changed_with_CE_high", hw.ce_log), ("reserved_or_out_of_range_write", hw.bad_write),
    )


def post_inv(self):
    return inv(self)


def unchanged_on_raise(self, old_self, exc):
    """a rejected call leaves registers and shadows exactly as they were"""
    return implies(exc is not None, view_cfg(self) == view_cfg(old_self))



def view_hw(self):
    """for drivers that keep no shadows (rf24_lite)"""
    return hw_view(self._spi.hw)
