"""Property -> spec modules, claimed level, trusted base (read by pyvc.check)."""

A_HW = ("A-HW: nRF24L01+ behaviour behind SPI/CE is the executable contract spec/hw.py "
        "(Product Specification v1.0: Table 20 commands, Table 28 registers, write masks, "
        "W1C status bits, 3-level FIFOs); it is assumed, not verified")
A_INT = "A-INT: integer inputs lie in [-2^62, 2^62); Python ints are BitVec(64) with no-overflow side obligations"
A_SEP = "A-SEP: distinct caller-supplied objects do not alias; callers do not mutate address objects they passed"
ENGINE = "pyvc VC generator (encoding of the Python subset, DESIGN 2.3) and z3 5.1 / cvc5 1.0 soundness"
SPIDEV = "adafruit_bus_device.SPIDevice / digitalio.DigitalInOut: assumed to frame one CSN-low transaction per `with` block and to drive CE"

NOT_APPLICABLE = {}

PROPERTIES = {
    "C15": {
        "level_text": "is_address_valid is proved equal to the reference validity predicate for EVERY integer and None. update() of routing-only/network nodes (= _net_update with both handlers, _write, _write_to_pipe, _tx_standby: the C07 contracts with raises=()), of mesh nodes and of the mesh master (six cases covering every reported type, with _dhcp and the lookup/release replies inlined) is proved to return normally for ANY RX FIFO content -- every subscript, struct call, bytes() and sleep is a fork to a raise-path that the contract forbids; malformed frames are proved dropped without queueing or transmitting; a reported message type is proved to belong to a validated frame still held in frame_buf.",
        "level_note": "Relative to A-HW/A-RX-FIN/A-CLK; 'bounded time' is argued (each loop turn performs >= 1 SPI frame, timeouts are finite) but not mechanised; RF24 callees by reference/contract (C02/C03/C08/C10), queue abstracted (C12 shows enqueue never raises); mesh lease table sizes 0..2 (0 for the address-request case; 0..1 thorough) in the quick tier.",
        "modules": ["spec.c15", "spec.c07", "spec.mesh"],
        "level": "proof",
        "trusted_base": [ENGINE, A_HW, "A-RX-FIN", "A-CLK (termination argued)", "C02 send/resend contract as oracle abstraction", "C03/C08/C10/C04/C11 reference functions for callees", "AbsQueue abstraction of the frame queue",
                         "A-LE: native struct formats 'HH'/'HHHBB' are little-endian and unpadded on this host"],
        "assumptions": [A_HW, "A-RX-FIN", "A-CLK", "A-LE", "lease table size bounded in the mesh-master cases (stated above)", "dynamic payloads stay enabled"],
    },
    "C16": {
        "level_text": "_dhcp is proved (table sizes 0..1 quick / 0..3 thorough, symbolic IDs, addresses, requester and relay) to keep D -- values valid, non-zero, not 0o4444, pairwise distinct -- and to grant only a direct child of the node the request arrived through that is leased to no other ID, replying exactly once-or-twice with type 128, reserved = the requester's ID, the little-endian address, to the relay (TX_NORMAL) or directly (TX_PHYSICAL); set_address, release_address and _get_address are proved against the mapping view; update() is proved to change the table only for requests and releases; the binary save format and load (into empty AND into changed tables) are proved to reproduce the leases and keep D.",
        "level_note": "Table size is bounded (case split) -- bounded in that one dimension; the JSON format rests on the assumed json/file round-trip and is not checked; requests relayed through level-4 nodes are outside the statement.",
        "modules": ["spec.mesh"],
        "level": "proof",
        "trusted_base": [ENGINE, "lease-table size bounded by case split (_dhcp: 0..1 quick, 0..3 thorough; other operations 0..3)", "C07._write contract as abstraction (records the reply)", "ghost file system for open()/write()/read()"],
        "assumptions": ["table sizes bounded as stated", "json.dumps/json.load and the file system round-trip dict[int,int] (JSON format not verified)", "A-LE"],
    },
    "C07": {
        "level_text": "For _begin, _tx_standby, _write_to_pipe, _write, _net_update (with both frame handlers), update(), multicast(), RF24Network.write(), the multicast_level and node_address setters it is proved that from a listening node (registers: PWR_UP/PRIM_RX/CE, six pipes open on the node's own addresses with pipe 0 on its level address, EN_AA = 0x3E, dynamic payloads) the node is listening again on EVERY return path -- success, failed transmission, standby timeout, NETWORK_ACK timeout, fragment abort, loop-back, forwarding -- for every received payload, every oracle outcome of every transmission and every address. Waiting/fragment/receive loops carry inductive invariants (arbitrary iteration from an arbitrary invariant state) with mechanically checked havoc footprints; _write <-> _net_update recursion is by contract.",
        "level_note": "Relative to A-HW; the RF24 calls are replaced by their C03/C08/C10 reference functions and by C02's send/resend contract with oracle outcomes; the frame queue is abstracted (accept/refuse oracle); termination of the waiting loops is argued from A-CLK (not mechanised); mesh entry points are covered when C17 is claimed; the user is assumed not to switch off dynamic payloads through the mixin and not to assign a reserved multicast address as node_address.",
        "modules": ["spec.c07"],
        "level": "proof",
        "trusted_base": [ENGINE, A_HW, "A-CLK (termination of timeout loops, argued)", "C02 contract of send/resend as an oracle abstraction (spec/net_state.py ref_send_net/ref_resend_net)",
                         "C03/C08/C10/C04/C11 reference functions stand in for the callees they were proved against", "frame queue abstracted by AbsQueue (never raises: C12)"],
        "assumptions": [A_HW, "A-CLK", "A-RX-FIN: finitely many payloads arrive during a call", "dynamic payloads stay enabled (set by RF24.__init__) -- stated precondition",
                        "node_address is never assigned a reserved multicast address", "message length <= max_message_length <= 6000"],
    },
    "C09": {
        "level_text": "RF24.__enter__ is proved, from ANY register file (whatever other objects sharing the radio did) and any well-formed shadows, to leave every configuration register equal to the object's shadow attributes (Inv) with only PWR_UP set in the shadows; __exit__ to drive CE low, clear PWR_UP and keep Inv; RF24.__init__ to establish Inv (plus variant); the RadioMixin enter/exit to delegate without further register writes. With C03/C08/C10 (every call inside a block preserves Inv) and the frame fact that no method can reach another object's shadows, induction over the block sequence gives restoration for any number and interleaving of objects.",
        "level_note": "Assumes A-HW, A-SEP; the induction over blocks is an argument over the proved per-call contracts (stated in spec/c09.py), not a separately mechanised lemma; FakeBLE's constructor/exit are covered under C18's channel invariant when that property is claimed.",
        "modules": ["spec.c09"],
        "level": "proof",
        "trusted_base": [ENGINE, A_HW, A_SEP, SPIDEV, "SPI primitives inlined", "composition over `with` blocks argued from the per-call contracts"],
        "assumptions": [A_HW, A_SEP, SPIDEV, "objects are used only inside their own `with` block (the property's hypothesis)", "plus variant (A-HW models the nRF24L01+)"],
    },
    "C02": {
        "level_text": "send() (single payload, force_retry 0..2) and resend() are proved against the PTX engine of A-HW with universally quantified oracles for every loss pattern: the result is truthy iff an attempt resolved TX_DS and False iff the first attempt and every forced retry resolved MAX_RT, at most 1+force_retry attempts are made, exactly one payload is loaded and every attempt transmits it from an otherwise empty TX FIFO (no leak from earlier failed calls), resend() retransmits exactly the FIFO head or returns False without an attempt, and SendInv is re-established, so the statements hold for every sequence of send()/resend() calls.",
        "level_note": "Relative to A-HW/A-HW-LIVE; the polling loops are explored for poll budgets 0..2 and extended to every finite budget by the stutter argument in spec/c02.py (a pending poll is idempotent); force_retry 0..2 by unrolling; real-time bounds are out of reach (DESIGN section 6); list inputs are not covered.",
        "modules": ["spec.c02"],
        "level": "proof",
        "trusted_base": [ENGINE, A_HW, "A-HW-LIVE: every started attempt resolves within finitely many SPI frames", A_INT, SPIDEV,
                         "callees write/update/flush_*/fifo/read/any/clear_status_flags/resend are inlined into send (verified as part of it)"],
        "assumptions": [A_HW, "A-HW-LIVE", "SendInv precondition: histories consist of send()/resend() calls (a TX FIFO pre-filled by write(..., write_only=True) is outside it)",
                        "poll budget explored 0..2 + stutter lemma; force_retry explored 0..2; list/tuple inputs not covered; wall-clock bound not decided"],
    },
    "C01": {
        "level_text": "write() is proved, for every buffer length and content (unbounded, bytes and bytearray), every static length/dynamic setting and every radio state satisfying Inv, to raise ValueError with no SPI frame and no state change exactly for empty/oversize dynamic payloads and otherwise to load exactly one W_TX_PAYLOAD(_NOACK) frame carrying exactly the documented payload (unchanged, or zero-padded/truncated to the static length), to return False without loading when the TX FIFO is full, and never to modify the caller's buffer; any()/read() are proved to return and pop exactly the head payload (spec/c10.py); the four SPI primitives and SPIDevCtx.write_readinto are proved to frame exactly one CSN transaction with the bytes given.",
        "level_note": "Assumes A-HW and Inv. The over-the-air step (A-AIR: a loaded payload is pushed once, in order, into the FIFO of the listening peer's matching pipe) is assumed, so 'exactly once, in order, attributed to the pipe' is the composition of write's and read's contracts over the shared FIFO-slot representation, not a proved multi-radio theorem; send()'s waiting loop is C02's subject.",
        "modules": ["spec.c01", "spec.c10"],
        "level": "proof",
        "trusted_base": [ENGINE, A_HW, A_INT, A_SEP, SPIDEV, "A-AIR (medium) assumed for the two-radio composition", "spidev.SpiDev.xfer2 assumed to clock one CSN frame (spec/hw.py SpiDevStub)"],
        "assumptions": [A_HW, A_INT, A_SEP, SPIDEV, "A-AIR: delivery between two radios is assumed, not modelled", "A-LEN: symbolic buffer lengths below 2^20"],
    },
    "C10": {
        "level_text": "update/available/any/read/pipe/tx_full/irq_*/clear_status_flags/flush_*/fifo/last_tx_arc/rpd are each proved to refine a reference written on A-HW's ghost FIFOs and latches, from an arbitrary radio state (0..3 payloads per FIFO, any pipes/widths/latches): read() returns and pops exactly the head and clears only RX_DR, clear_status_flags clears exactly the requested latches, flush_* empty exactly their FIFO, fifo() gives the documented answers; after interrupt_config the IRQ function of A-HW asserts for exactly the enabled events.",
        "level_note": "Assumes A-HW and Inv; read(length) is covered for length None and 1..32 with the whole-payload pop of the model (partial reads that leave a payload in the FIFO are outside A-HW).",
        "modules": ["spec.c10"],
        "level": "proof",
        "trusted_base": [ENGINE, A_HW, A_INT, SPIDEV, "SPI primitives inlined into each caller"],
        "assumptions": [A_HW, A_INT, SPIDEV, "read(length) with an explicit length pops the head payload as a whole (A-HW model); partial reads are not modelled"],
    },
    "C06": {
        "level_text": "FrameQueueFrag.enqueue is proved to preserve the reassembly invariant R (the cache is empty or is exactly the first nxt fragments of one sent message; nothing is appended to the queue except the complete original message when its LAST fragment arrives in sequence) for an arbitrary incoming fragment frag(m,k) of an arbitrary sent message -- one inductive step that covers every loss/duplication/reordering/interleaving pattern, with message lengths, contents, senders and ids symbolic and unbounded. The cache is proved empty after completion (no second delivery through a duplicated LAST) and at construction.",
        "level_note": "A-ID (two distinct in-flight messages to one node differ in (from_node, frame_id)); queue lengths 0..2 in the pre-state of the step (the step only appends); known finding D4a excluded by its `when` predicate; re-transmission of a whole message (FIRST..LAST again) after the application read it is delivered again by design of the protocol and is outside the claim.",
        "modules": ["spec.c06"],
        "level": "proof",
        "trusted_base": [ENGINE, "A-ID", "C11 reference codecs stand in for pack/unpack (proved under C11)"],
        "assumptions": ["A-ID: (from_node, frame_id) identifies an in-flight message to this node", A_SEP,
                        "received fragment frames are genuine fragments frag(m,k) of sent messages (the property's hypothesis); adversarial frames are C15's subject",
                        "whole-message retransmission after a dequeue is outside the at-most-once claim"],
    },
    "C12": {
        "level_text": "enqueue/dequeue/peek/len, the move constructors and the fragmentation toggle are proved against the abstract view (tuple of (from,to,id,type,reserved,bytes)) for the WHOLE view, including the private-copy (no alias) obligation and the NoDup/capacity invariant; header fields, message lengths/contents and max_queue_size are symbolic.",
        "level_note": "Queue length is covered by case split 0..7 (stated bound; default capacity 6) -- bounded in that one dimension; C11 reference codecs stand in for pack/unpack.",
        "modules": ["spec.c12", "spec.c11"],
        "level": "proof",
        "trusted_base": [ENGINE, "queue pre-state lengths 0..7 only (bounded dimension)", "C11 reference codecs stand in for pack/unpack (proved under C11)"],
        "assumptions": [A_SEP, "frames carry wire-range header fields (12-bit addresses, 16-bit id, byte type/reserved) -- true of every frame after validation or construction through RF24NetworkHeader()",
                        "queue length in the pre-state <= 7"],
    },
    "C04": {
        "level_text": "_begin's address-derived fields, _logi_2_phys, _pipe_address and _lvl_2_addr are proved equal to digit-wise reference functions for every valid address (and symbolic prefix/suffix bytes); reachability in <= 8 hops along parent/child hops, the up-then-down shape, pipe-address injectivity over the whole (node, pipe) space, the pipes-1..5 byte sharing and the level-address lemmas are then proved as SMT validities over those reference functions for all 781x780 pairs and all pairwise-distinct prefix/suffix bytes at once (7 hops are shown insufficient as a vacuity guard).",
        "level_note": "Assumes only the engine and (for _begin) the C03/C08 reference functions of the RF24 calls it makes (proved under C03/C08); address space finite and covered symbolically in full.",
        "modules": ["spec.c04"],
        "level": "proof",
        "trusted_base": [ENGINE, "C03/C08 reference functions stand in for the RF24 calls made by _begin (each proved against its body under C03/C08)"],
        "assumptions": ["address_prefix/address_suffix bytes pairwise distinct (hypothesis of the uniqueness lemmas; true of the defaults)", A_HW],
    },
    "C08": {
        "level_text": "The listen setter/getter, open_tx_pipe, open_rx_pipe, close_rx_pipe, auto_ack/set_auto_ack and address are proved, for all arguments and from every state satisfying Inv and J, to refine reference functions written from the docs/datasheet, to preserve Inv and J, and (listen) to satisfy the RX-entry postcondition (pipe 0 on the user's address or closed), the CE ordering clause (PRIM_RX never changed with CE high; CE high in RX) and (open_tx_pipe, TX mode, auto-ack on pipe 0) 'pipe 0 open on the TX address'. Inductive, so it covers every call sequence.",
        "level_note": "Assumes A-HW, A-INT, A-SEP, A-CLK; SPI primitives inlined; 'send() to a listening peer succeeds' is reduced to the radio-side condition for receiving the ACK.",
        "modules": ["spec.c08"],
        "level": "proof",
        "trusted_base": [ENGINE, A_HW, A_INT, A_SEP, SPIDEV, "SPI primitives inlined into each caller",
                         "A-CLK: time.monotonic_ns() is non-decreasing"],
        "assumptions": [A_HW, A_INT, A_SEP, SPIDEV, "A-CLK: time.monotonic_ns() is non-decreasing",
                        "the clause 'send() to a listening peer succeeds' is reduced to 'pipe 0 is open on the TX address' (what the radio needs to receive the ACK per A-HW); the over-the-air step is not modelled"],
    },
    "C03": {
        "level_text": "Every configuration entry point of RF24 is proved, for all argument values and from every state satisfying the shadow/register invariant Inv, to end in exactly the abstract state of a reference function written from the docs and the register map (all shadows, whole register file, FIFOs, CE, no reserved write), to return the same value, raise the same exception type and re-establish Inv; by induction this covers every call sequence.",
        "level_note": "Assumes A-HW (spec/hw.py register semantics), A-INT, A-SEP; SPI primitives inlined; list arguments covered for lengths 0..8 only; non-plus carrier-wave path outside the claim.",
        "modules": ["spec.c03"],
        "level": "proof",
        "trusted_base": [ENGINE, A_HW, A_INT, A_SEP, SPIDEV,
                         "SPI primitives _reg_read/_reg_write/_reg_write_bytes/_reg_read_bytes are inlined into each caller (verified as part of it, not by contract)"],
        "assumptions": [A_HW, A_INT, A_SEP, SPIDEV,
                        "list/tuple arguments of the per-pipe setters are covered for lengths 0..8 (tuples 0..2); longer lists are not covered (bounded in length only)",
                        "start_carrier_wave/stop_carrier_wave on the non-plus variant deliberately desynchronise the shadows (documented) and are outside the claim"],
    },
}
