"""C12 -- the frame queue is a bounded, duplicate-free FIFO of private copies.

Abstract view of a queue: the tuple of (from, to, id, type, reserved, message bytes) of its frames
in order.  Every public operation is specified on that view (whole view, not only the touched
element).  Queue lengths 0..QMAX are covered by case split (stated bound; the default capacity is
6); everything else -- header fields, message lengths and contents, max_queue_size -- is symbolic."""
from pyvc.cdef import Contract, Lemma
from pyvc.schema import Int, Bool, Const, Bytes, ByteArray, Obj, OneOf, ListOf
from pyvc.specrt import implies, ite, is_fresh, same_object
from spec.c11 import header_schema, frame_schema, STRUCT_POLICY

QMAX = 7
FQ = "structs:FrameQueue"
FQF = "structs:FrameQueueFrag"


def stored_frame():
    return frame_schema(True, None, msg=Bytes(0, None))


def queue_schema(cls=FQ, maxn=QMAX, extra=None, minn=0):
    alts = [ListOf([stored_frame() for _ in range(n)]) for n in range(minn, maxn + 1)]
    f = {"max_queue_size": Int(0, 1000), "_queue": OneOf(*alts)}
    if cls == FQF:
        f["_frags"] = frame_schema(True, None, msg=OneOf(Bytes(0, None), ByteArray(0, None)))
    if extra:
        f.update(extra)
    return Obj(cls, f)


def fview(frm):
    h = frm.header
    return (h.from_node, h.to_node, h.frame_id, h.message_type, h.reserved, bytes(frm.message))


def qview(q):
    v = ()
    for frm in q._queue:
        v = v + (fview(frm),)
    return v


def wire12(frame):
    """a frame as it exists after validation / construction: 12-bit addresses, 16-bit id, byte
    type and reserved"""
    h = frame.header
    return (0 <= h.from_node and h.from_node < 4096 and 0 <= h.to_node and h.to_node < 4096
            and 0 <= h.frame_id and h.frame_id < 65536 and 0 <= h.message_type and h.message_type < 256
            and 0 <= h.reserved and h.reserved < 256)


def q_wf(self):
    ok = True
    for frm in self._queue:
        ok = ok and wire12(frm)
    return ok


def same_key(a, b):
    return (a.header.from_node == b.header.from_node and a.header.frame_id == b.header.frame_id
            and a.header.message_type == b.header.message_type)


def nodup(self):
    ok = True
    i = 0
    for a in self._queue:
        j = 0
        for b in self._queue:
            if j < i:
                ok = ok and not same_key(a, b)
            j = j + 1
        i = i + 1
    return ok


def req_enqueue(self, frame):
    return q_wf(self) and wire12(frame) and nodup(self)


def has_dup(q, frame):
    d = False
    for frm in q._queue:
        d = d or same_key(frm, frame)
    return d


def ens_enqueue(self, old_self, old_frame, result, exc):
    """full (never more than max_queue_size) or duplicate -> refused, view unchanged;
    otherwise appended at the tail, everything before it unchanged"""
    full = len(old_self._queue) >= old_self.max_queue_size
    dup = has_dup(old_self, old_frame)
    refused = full or dup
    return (exc is None and self.max_queue_size == old_self.max_queue_size
            and implies(refused, result == False and qview(self) == qview(old_self))
            and implies(not refused, result == True and qview(self) == qview(old_self) + (fview(old_frame),)))


def ens_enqueue_inv(self, old_self):
    return nodup(self) and q_wf(self) and len(self._queue) <= max(len(old_self._queue), old_self.max_queue_size)


def ens_enqueue_copy(self, frame, result):
    """the stored frame, its header and its message are private: no alias to the argument"""
    if not result:
        return True
    n = len(self._queue)
    last = self._queue[n - 1]
    return (is_fresh(last) and is_fresh(last.header) and not same_object(last, frame)
            and not same_object(last.header, frame.header)
            and (is_fresh(last.message) or not same_object(last.message, frame.message)))


def ens_arg_untouched(frame, old_frame):
    return fview(frame) == fview(old_frame)


def ens_dequeue(self, old_self, result, exc):
    if exc is not None:
        return False
    if len(old_self._queue) == 0:
        return result is None and qview(self) == ()
    return (result is not None and fview(result) == qview(old_self)[0]
            and qview(self) == qview(old_self)[1:] and self.max_queue_size == old_self.max_queue_size)


def ens_peek(self, old_self, result, exc):
    if exc is not None:
        return False
    if len(old_self._queue) == 0:
        return result is None and qview(self) == ()
    return (result is not None and fview(result) == qview(old_self)[0] and qview(self) == qview(old_self)
            and self.max_queue_size == old_self.max_queue_size)


def ens_len(self, old_self, result):
    return result == len(old_self._queue) and qview(self) == qview(old_self)


def ens_move(self, queue, old_queue, exc):
    """FrameQueue(q): all frames move over in order, the source is emptied, capacity is copied"""
    if exc is not None:
        return False
    if old_queue is None:
        return qview(self) == () and self.max_queue_size == 6
    return (qview(self) == qview(old_queue) and qview(queue) == ()
            and self.max_queue_size == old_queue.max_queue_size)


def ens_move_frag(self, queue, old_queue, exc):
    return ens_move(self, queue, old_queue, exc)


def ens_fragmentation(self, old_self, enabled, exc):
    """toggling swaps the queue class, keeps frames in order and the capacity; no-op if unchanged"""
    if exc is not None:
        return False
    en = bool(enabled)
    if en == old_self._frag_enabled:
        return (same_object(self.queue, old_self.queue) or qview(self.queue) == qview(old_self.queue)) and \
            self.max_message_length == old_self.max_message_length and self._frag_enabled == en and \
            qview(self.queue) == qview(old_self.queue)
    return (self._frag_enabled == en and qview(self.queue) == qview(old_self.queue)
            and self.queue.max_queue_size == old_self.queue.max_queue_size
            and self.max_message_length == ite(en, 144, 24)
            and has_cache(self.queue) == en)


def has_cache(q):
    return hasattr(q, "_frags")


R = "spec.c12:"
QPOL = dict(STRUCT_POLICY)
QPOL.update({
    "structs:RF24NetworkFrame.__init__": "inline", "structs:RF24NetworkHeader.__init__": "inline",
    "structs:RF24NetworkFrame.pack": "ref:spec.c11:ref_frame_pack",
    "structs:RF24NetworkFrame.unpack": "ref:spec.c11:ref_frame_unpack",
    "structs:FrameQueue.__len__": "inline", "structs:FrameQueue.dequeue": "inline", "structs:FrameQueue.enqueue": "inline",
    "structs:FrameQueueFrag.enqueue": "inline", "structs:FrameQueue.peek": "inline",
    "structs:FrameQueue.__init__": "inline", "structs:FrameQueueFrag.__init__": "inline",
})

ARG_FRAME = frame_schema(True, None)
NONFRAG = "spec.c12:req_not_fragment"


def req_not_fragment(frame):
    t = frame.header.message_type
    return t != 148 and t != 149 and t != 150


def _enq(name, cls, requires):
    pol = dict(QPOL)
    if cls == FQF:
        pol["structs:FrameQueue.enqueue"] = "inline"   # super().enqueue(): same obligations as C12.enqueue
    return Contract(name, cls + ".enqueue", {"self": queue_schema(cls), "frame": ARG_FRAME},
                    requires=[R + "req_enqueue"] + requires,
                    ensures=[("view", R + "ens_enqueue"), ("inv", R + "ens_enqueue_inv"), ("copy", R + "ens_enqueue_copy"),
                             ("arg_untouched", R + "ens_arg_untouched")],
                    raises=(), policy=pol, props=["C12"])


def net_frag_schema():
    return Obj("mixins:NetworkMixin", {
        "_frag_enabled": Bool(), "max_message_length": Int(0, 10000),
        "queue": OneOf(queue_schema(FQ, 3), queue_schema(FQF, 3))})


def req_frag_consistent(self):
    return has_cache(self.queue) == self._frag_enabled and q_wf(self.queue)


CONTRACTS = [
    _enq("C12.enqueue", FQ, []),
    _enq("C12.enqueue.frag_queue", FQF, [NONFRAG]),
    Contract("C12.dequeue", FQ + ".dequeue", {"self": queue_schema(FQ)}, ensures=[("view", R + "ens_dequeue")], raises=(), policy=QPOL, props=["C12"]),
    Contract("C12.peek", FQ + ".peek", {"self": queue_schema(FQ)}, ensures=[("view", R + "ens_peek")], raises=(), policy=QPOL, props=["C12"]),
    Contract("C12.len", FQ + ".__len__", {"self": queue_schema(FQ)}, ensures=[("view", R + "ens_len")], raises=(), policy=QPOL, props=["C12"]),
    Contract("C12.move", FQ + ".__init__", {"self": Obj(FQ, {}), "queue": OneOf(Const(None), queue_schema(FQ), queue_schema(FQF))},
             ensures=[("view", R + "ens_move")], raises=(), policy=QPOL, props=["C12"]),
    Contract("C12.move.frag", FQF + ".__init__", {"self": Obj(FQF, {}), "queue": OneOf(Const(None), queue_schema(FQ), queue_schema(FQF))},
             ensures=[("view", R + "ens_move_frag")], raises=(), policy=QPOL, props=["C12"]),
    Contract("C12.fragmentation", "mixins:NetworkMixin.fragmentation.setter", {"self": net_frag_schema(), "enabled": OneOf(Bool(), Int())},
             requires=[R + "req_frag_consistent"], ensures=[("view", R + "ens_fragmentation")], raises=(), policy=QPOL, props=["C12"]),
]
