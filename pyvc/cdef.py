"""Contract descriptors (pure stdlib: imported by the engine and by the native replay)."""


class Contract:
    """contract of one repository function

    name      obligation prefix, e.g. 'C03.channel_set'
    target    'rf24:RF24.channel.setter' | 'structs:is_address_valid' ...
    state     ordered dict  param -> schema node (the symbolic pre-state; first is usually 'self')
    requires  list of spec predicate keys (called with arguments chosen by parameter name)
    refines   spec reference function key (same parameters as the target) or None
    view      spec function key; view(self) -> tuple of (name, value) pairs compared body vs ref
    ensures   list of (clause, spec predicate key); parameters by name:
              <param>, old_<param>, result, exc (exception type name or None)
    raises    exception type names the target may raise (ensures-style contracts); None = none
    policy    dict callee-key (or prefix*) -> 'inline' | 'ref:<spec key>' | 'havoc:<name>'
    loops     dict (func key, loop ordinal) -> LoopSpec
    cases     optional list of dict overriding entries of `state` (type-case split)
    findings  ids of known-finding exclusions applicable to this contract
    """

    def __init__(self, name, target, state, requires=(), refines=None, view=None, ensures=(),
                 raises=(), policy=None, loops=None, props=(), call_kwargs=None, note="",
                 max_paths=4000, timeout_ms=None, ref_args=None, ghost=(), setup=(), replayable=True, kw=(), poll_bound=None):
        self.name = name
        self.target = target
        self.state = state
        self.requires = list(requires)
        self.refines = refines
        self.view = view
        self.ensures = list(ensures)
        self.raises = set(raises) if raises is not None else None
        self.policy = dict(policy or {})
        self.loops = dict(loops or {})
        self.props = list(props)
        self.call_kwargs = call_kwargs or {}
        self.note = note
        self.max_paths = max_paths
        # TERMINATION MEASURE for loops explored by unrolling: no `while` loop of the target (or of an inlined callee)
        # makes more than this many turns on a feasible path -- obligation <name>.<fn>.loop<k>.bounded_turns.
        # Stated per contract from the assumption it rests on (C02: A-HW-LIVE, an attempt resolves within
        # `budget` <= 2 further SPI frames, so a polling loop makes at most budget + 3 polls).
        self.poll_bound = poll_bound
        self.timeout_ms = timeout_ms
        self.ref_args = ref_args
        # False: callees are abstracted by contract (oracle outcomes / havoc), so a counter-model has no
        # native run; a refuted obligation is then reported with `no-failing-input-found`
        self.replayable = replayable
        self.kw = list(kw)        # state entries passed to the target as keyword arguments (others keep their defaults)
        self.setup = list(setup)   # spec functions run on the fresh state before `requires` (pre-state by construction)
        self.ghost = list(ghost)   # state entries that are specification-only (not passed to the target)


class Lemma:
    """pure statement over spec functions: pred(**state) must be valid under `requires`"""

    def __init__(self, name, state, pred, requires=(), props=(), note="", expect_sat=False, timeout_ms=None):
        self.name = name
        self.state = state
        self.pred = pred
        self.requires = list(requires)
        self.props = list(props)
        self.note = note
        self.expect_sat = expect_sat   # vacuity guard: the statement must be refutable
        self.timeout_ms = timeout_ms


class LoopSpec:
    """invariant / variant of one loop, keyed by (function key, loop ordinal)

    inv       spec predicate key; parameters by name: locals of the function, '$k' index as 'k_'
    variant   spec function key -> int (must decrease and stay >= 0)
    havoc     extra heap paths to havoc, e.g. ['self._queue'] (locals assigned in the body are
              havocked automatically)
    """

    def __init__(self, inv, variant=None, havoc=(), unroll_first=0, frame=None, locals=None, entry=None):
        self.entry = entry     # spec predicate proved at loop ENTRY only (e.g. "the deadline was computed from now")
        self.locals = dict(locals or {})   # name -> schema node: shape of a havocked local that is not a plain int/bool (e.g. None-or-int)
        self.inv = inv
        self.variant = variant
        self.havoc = list(havoc)
        self.unroll_first = unroll_first
        self.frame = frame     # spec view of everything the loop must NOT modify (checked on the step path)


class Finding:
    """a known finding: excludes exactly the inputs matching `when` from one obligation"""

    def __init__(self, fid, prop, obligation, when, what, witness=None):
        self.fid = fid
        self.prop = prop
        self.obligation = obligation
        self.when = when
        self.what = what
        self.witness = witness
