#!/bin/sh
# usage: tools/seedcheck.sh <worktree> <PROP> <seed-id> [extra props...]
# confirms a sub-agent's seeded change (tests still pass, demo fails with / passes without the change),
# stores it under seeded/<id>/, then runs the check(s) with the patch applied to /repo and undoes it.
W="$1"; P="$2"; ID="$3"; shift 3
cd "$W" || exit 9
echo "== confirming in $W"
T_AFTER=$(PYTHONPATH="$W" /venv/bin/python -m pytest -q -p no:cacheprovider 2>&1 | tail -1)
PYTHONPATH="$W" /venv/bin/python demo.py >/tmp/seed_demo_changed.txt 2>&1; D_CHANGED=$?
git diff > /tmp/seed_cur.diff
git apply -R /tmp/seed_cur.diff
T_BEFORE=$(PYTHONPATH="$W" /venv/bin/python -m pytest -q -p no:cacheprovider 2>&1 | tail -1)
PYTHONPATH="$W" /venv/bin/python demo.py >/tmp/seed_demo_orig.txt 2>&1; D_ORIG=$?
git apply /tmp/seed_cur.diff
echo "tests before: $T_BEFORE"; echo "tests after : $T_AFTER"; echo "demo exit original=$D_ORIG changed=$D_CHANGED"
mkdir -p /verif/seeded/$ID
git diff > /verif/seeded/$ID/patch.diff
cp demo.py /verif/seeded/$ID/demo.py
cp notes.txt /verif/seeded/$ID/notes.txt 2>/dev/null
cd /verif
# USE_WORKTREE=1: check the sub-agent's worktree itself (--repo) instead of applying the patch to /repo
# (for when another run is using /repo); the patch is still verified to apply to /repo
git -C /repo apply --check /verif/seeded/$ID/patch.diff || { echo "PATCH DOES NOT APPLY TO /repo"; exit 8; }
REPOARG=""
if [ -n "$USE_WORKTREE" ]; then REPOARG="--repo $W"; else git -C /repo apply /verif/seeded/$ID/patch.diff; fi
RES=""
for Q in $P "$@"; do
  OUT=$(bin/check $Q --no-evidence $REPOARG 2>&1 | grep -E "^C[0-9]+:|VIOLATION|UNDECIDED|FAULT" | head -6)
  echo "--- check $Q with the change applied:"; echo "$OUT"
  RES="$RES $Q:$(echo "$OUT" | grep -c VIOLATION)"
done
if [ -z "$USE_WORKTREE" ]; then git -C /repo checkout -- .; fi
git -C /repo status --short | head -3
python3 - "$ID" "$P" "$T_BEFORE" "$T_AFTER" "$D_ORIG" "$D_CHANGED" "$RES" <<'PY'
import json, sys, os
sid, prop, tb, ta, do, dc, res = sys.argv[1:8]
notes = open('/verif/seeded/%s/notes.txt' % sid).read() if os.path.exists('/verif/seeded/%s/notes.txt' % sid) else ''
meta = {"id": sid, "breaks_property": prop, "needs_to_manifest": notes.strip(),
        "confirmed": {"tests_before": tb.strip(), "tests_after": ta.strip(), "demo_exit_original": int(do), "demo_exit_changed": int(dc),
                      "how": "tools/seedcheck.sh: pytest + demo.py in the sub-agent's worktree with and without the change (PYTHONPATH=worktree)"},
        "checks_run_with_patch_applied_to_repo": res.strip(),
        "ran": "git -C /repo apply seeded/%s/patch.diff; bin/check <ID> --no-evidence; git -C /repo checkout -- ." % sid}
json.dump(meta, open('/verif/seeded/%s/meta.json' % sid, 'w'), indent=1)
print(json.dumps(meta["confirmed"]), res)
PY
