"""Mesh layer: C16 (address leases), the mesh roles of C15 (update never raises) and the per-call
clauses of C17 (lookups, release, check_connection).

The lease table `dhcp_dict` is an insertion-ordered association list; table sizes 0..TMAX are
covered by case split (stated bound) with symbolic IDs and addresses.  D(d) -- the invariant of
C16 -- is: every value is a valid node address other than 0 and 0o4444, values are pairwise
distinct (keys are distinct by construction of a dict), every key is in 1..255."""
from pyvc.cdef import Contract, LoopSpec
from pyvc.schema import Int, Bool, Const, Bytes, ByteArray, Obj, OneOf, DictOf
from pyvc.specrt import implies, ite, oracle_int, require, assume
from spec.net_ref import valid_node, valid_address, level, parent, low_digits
from spec.net_state import net_schema, node_ok, NETPOL
from spec.c07 import (POL, havoc_radio_io, havoc_update, target_ok, req_update, fixed_cfg, abs_net_update, frame_valid_if)

import os

TMAX = 3
THOROUGH = os.environ.get("VERIF_TIER") == "thorough"
TDHCP = 4 if THOROUGH else 3   # table sizes for the expensive _dhcp contracts
DEFAULT = 0o4444
MAX_OWN_TX = 4      # termination measure: frames a master's update() may transmit on its own behalf
G = {"g_writes": Const(0), "g_to": Const(0), "g_type": Const(0), "g_h_to": Const(0), "g_h_from": Const(0),
     "g_h_type": Const(0), "g_h_res": Const(0), "g_h_id": Const(0), "g_msg": Const(b""), "g_to2": Const(0), "g_same": Const(True), "g_tlo": Const(0), "g_thi": Const(255)}


def mesh_schema(cls="rf24_mesh:RF24Mesh", node_id=None, addr=None, table=None, tmax=TMAX, frame=None, trange=None, do_dhcp=None):
    extra = dict(G)
    if trange:
        extra["g_tlo"] = Const(trange[0])
        extra["g_thi"] = Const(trange[1])
    extra["_id"] = node_id if node_id is not None else Int(0, 255)
    extra["block_less_callback"] = Const(None)
    if cls.endswith(":RF24Mesh"):
        extra["_do_dhcp"] = do_dhcp if do_dhcp is not None else Bool()
        extra["dhcp_dict"] = table if table is not None else OneOf(*[DictOf(n, Int(1, 255), Int(1, 4095)) for n in range(tmax + 1)])
    return net_schema(cls=cls, extra=extra, addr=addr, frame=frame)


# ------------------------------------------------------------------ table predicates

def d_inv(d):
    ok = True
    i = 0
    for k, v in d.items():
        ok = ok and 1 <= k and k <= 255 and valid_node(v) and v != 0 and v != DEFAULT
        j = 0
        for k2, v2 in d.items():
            if j < i:
                ok = ok and v != v2
            j = j + 1
        i = i + 1
    return ok


def lookup_id(d, node_id):
    """the address leased to node_id, or -2"""
    r = -2
    for k, v in d.items():
        r = ite(k == node_id, v, r)
    return r


def lookup_addr(d, address):
    r = -2
    for k, v in d.items():
        r = ite(v == address, k, r)
    return r


def same_table(a, b):
    """equal as mappings (order-insensitive)"""
    ok = len(a) == len(b)
    for k, v in a.items():
        ok = ok and lookup_id(b, k) == v
    return ok


def table_minus(a, b, addr):
    """a == b without the entry holding addr"""
    ok = True
    for k, v in b.items():
        ok = ok and ite(v == addr, lookup_id(a, k) == -2, lookup_id(a, k) == v)
    for k, v in a.items():
        ok = ok and lookup_id(b, k) == v
    return ok


# ------------------------------------------------------------------ _write abstraction that records the reply

def abs_write_m(self, write_direct, send_type):
    """C07._write's contract + a ghost record of the first frame handed to it"""
    require(node_ok(self) and target_ok(self, write_direct, send_type), "_write: node listening, valid target")
    h = self.frame_buf.header
    if self.g_writes == 0:
        self.g_to = write_direct
        self.g_type = send_type
        self.g_h_to = h.to_node
        self.g_h_from = h.from_node
        self.g_h_type = h.message_type
        self.g_h_res = h.reserved
        self.g_h_id = h.frame_id
        self.g_msg = bytes(self.frame_buf.message)
    else:
        self.g_to2 = write_direct
        # a further try must hand over the SAME frame again (seed s66: the master built its address
        # response once, before the retry loop; the wait for the NETWORK_ACK overwrites frame_buf)
        self.g_same = (self.g_same and write_direct == self.g_to and send_type == self.g_type and h.to_node == self.g_h_to
                       and h.from_node == self.g_h_from and h.message_type == self.g_h_type and h.reserved == self.g_h_res
                       and bytes(self.frame_buf.message) == self.g_msg)
    self.g_writes = self.g_writes + 1
    acky = 65 <= h.message_type and h.message_type <= 191 and (send_type == 0 or send_type == 3)
    havoc_radio_io(self)
    if acky:
        havoc_update(self)
    if h.message_type == 150 and h.reserved == 131:
        h.message_type = oracle_int(0, 255)       # looped-back external-data fragment: retyped by the queue
    if send_type == 1:
        h.message_type = oracle_int(0, 255)
        h.to_node = oracle_int(0, 0xFFFF)
    h.reserved = oracle_int(0, 255)
    self.queue.n = oracle_int(0, 1000)
    assume(node_ok(self))
    return oracle_int(0, 1) == 1


# ------------------------------------------------------------------ C16: _dhcp

def is_master(self):
    return self._id == 0 and self._addr == 0


def req_dhcp(self):
    h = self.frame_buf.header
    via = h.from_node
    return (req_update(self) and is_master(self) and d_inv(self.dhcp_dict)
            and (via == DEFAULT or (valid_node(via) and level(via) <= 3))
            and 1 <= h.reserved and h.reserved <= 255)


def child_of(a, via):
    """a is a direct child of via (of the master when the request came in directly)"""
    v = ite(via == DEFAULT, 0, via)
    return valid_node(a) and level(a) == level(v) + 1 and parent(a) == v


def ens_dhcp(self, old_self, exc):
    d = self.dhcp_dict
    od = old_self.dhcp_dict
    oh = old_self.frame_buf.header
    r = oh.reserved
    via = oh.from_node
    if exc is not None:
        return False
    if not old_self._do_dhcp:
        return same_table(d, od) and self.g_writes == 0 and not self._do_dhcp
    a = lookup_id(d, r)
    unchanged = same_table(d, od) and self.g_writes == 0
    # every other lease is untouched; r now maps to a
    others = True
    for k, v in od.items():
        others = others and implies(k != r, lookup_id(d, k) == v)
    for k, v in d.items():
        others = others and implies(k != r, lookup_id(od, k) == v)
    granted = (a != -2 and child_of(a, via) and a != 0 and a != DEFAULT and others and lookup_addr_other(od, a, r)
               and self.g_writes >= 1 and self.g_writes <= MAX_OWN_TX                    # bounded time (the code makes 1 try, 2 when relayed)
               and self.g_h_type == 128 and self.g_h_res == r and self.g_h_to == via
               and self.g_msg == bytes([a % 256, a // 256])
               and self.g_to == via and self.g_type == ite(via == DEFAULT, 2, 0)
               and self.g_same)                                                         # a second try repeats exactly this reply
    return not self._do_dhcp and d_inv(d) and (unchanged or granted)


def lookup_addr_other(od, a, r):
    """a was not leased to any ID other than r"""
    ok = True
    for k, v in od.items():
        ok = ok and implies(v == a, k == r)
    return ok


# ------------------------------------------------------------------ set_address / release / lookups on the master

def ens_set_address(self, old_self, node_id, node_address, search_by_address, exc):
    d = self.dhcp_dict
    od = old_self.dhcp_dict
    if exc is not None:
        return False
    ok = lookup_id(d, node_id) == node_address
    for k, v in od.items():
        gone = bool(search_by_address) and v == node_address
        ok = ok and implies(k != node_id and not gone, lookup_id(d, k) == v)
    for k, v in d.items():
        ok = ok and implies(k != node_id, lookup_id(od, k) == v)
    return ok


def ens_set_address_d(self, old_self, node_id, node_address, search_by_address):
    """replacing by address keeps `no two IDs share an address`"""
    ok_new = valid_node(node_address) and node_address != 0 and node_address != DEFAULT and 1 <= node_id and node_id <= 255
    return implies(bool(search_by_address) and d_inv(old_self.dhcp_dict) and ok_new, d_inv(self.dhcp_dict))


def ens_release(self, old_self, address, result, exc):
    d = self.dhcp_dict
    od = old_self.dhcp_dict
    had = lookup_addr(od, address) != -2
    return (exc is None and result == had and table_minus(d, od, address)
            and implies(d_inv(od), d_inv(d) and lookup_addr(d, address) == -2))


def req_nonzero(self, address):
    return address != 0 and d_inv(self.dhcp_dict)


def ens_get_address(self, old_self, number, lookup_type, result, exc):
    od = old_self.dhcp_dict
    want = ite(lookup_type == 198, lookup_addr(od, number), ite(lookup_type == 196, lookup_id(od, number), -2))
    return exc is None and result == want and same_table(self.dhcp_dict, od)


def req_get_address(self, number, lookup_type):
    return d_inv(self.dhcp_dict)


# ------------------------------------------------------------------ persistence (binary format)

def req_persist(self, filename, as_bin):
    return d_inv(self.dhcp_dict)


def ens_save_load(self, old_self, exc):
    return exc is None and same_table(self.dhcp_dict, old_self.dhcp_dict)


def table_state(n, m):
    return Obj("rf24_mesh:RF24Mesh", {"dhcp_dict": DictOf(n, Int(1, 255), Int(1, 4095)),
                                      "other": DictOf(m, Int(1, 255), Int(1, 4095))})


def ens_load_into(self, exc):
    """loading a saved table into a table that has changed meanwhile keeps D"""
    return exc is None and d_inv(self.dhcp_dict)


def req_two_tables(self):
    return d_inv(self.dhcp_dict) and d_inv(self.other)


# ------------------------------------------------------------------ master update (C15 / C16 / C17)

def req_master_update(self):
    """_do_dhcp is set and consumed within one update() on the master, so it is False between calls"""
    return req_update(self) and is_master(self) and d_inv(self.dhcp_dict) and not self._do_dhcp


def havoc_update_keep_valid(self):
    """_net_update() returned a frame: it passed validation (both addresses valid)"""
    havoc_update(self)


def abs_net_update_m(self):
    """contract of _net_update() as seen by the mesh layer: the last frame left in frame_buf
    passed validation when a type is reported"""
    require(node_ok(self), "_net_update: node listening")
    havoc_update(self)
    assume(node_ok(self))
    t = oracle_int(0, 255)
    assume(frame_valid_if(self, t))     # proved of the real _net_update as C07._net_update.frame_valid
    assume(self.g_tlo <= t and t <= self.g_thi)   # case split over the reported type (the cases cover 0..255)
    return t


def ens_master_update(self, old_self, result, exc):
    """never raises; only an address request or a release changes the table; a lookup is answered
    with the mapping or -2 and never disturbs the table"""
    d = self.dhcp_dict
    od = old_self.dhcp_dict
    if exc is not None:
        return False
    t = result
    lookup = t == 196 or t == 198
    quiet = implies(t != 195 and t != 197, same_table(d, od))
    via = self.g_h_from
    via_ok = via == DEFAULT or (valid_node(via) and level(via) <= 3)
    granted = t == 195 and self.g_writes >= 1
    # C16's hypothesis: requests arrive directly or through a node of level 0..3
    keeps_d = implies(not granted or via_ok, d_inv(d))
    # C15 "finishes in bounded time": one update() transmits a bounded number of frames of its own
    # (the code: a reply, and one more try for a relayed address response).  The measure is
    # deliberately generous -- the property asks for SOME bound, not for the code's current retry count
    bounded = self.g_writes <= MAX_OWN_TX
    return node_ok(self) and keeps_d and quiet and implies(lookup, same_table(d, od)) and not self._do_dhcp and bounded


def ens_lookup_reply(self, old_self, result, exc):
    """the reply to a well-formed lookup carries the mapping or the documented code -2
    (16-bit signed, as TMRh20's RF24Mesh sends it) back to the asking node"""
    od = old_self.dhcp_dict
    if exc is not None:
        return False
    if (result == 196 or result == 198) and self.g_writes >= 1:
        v = self.g_msg[0] + 256 * self.g_msg[1]
        known = ite(result == 196, lookup_addr(od, v) != -2, lookup_id(od, v) != -2)
        return (len(self.g_msg) == 2 and self.g_h_type == result and self.g_to == self.g_h_to and self.g_type == 0
                and (v == 0 or v == 0xFFFE or known))
    return implies(result == 196 or result == 198, self.g_writes == 1)


def _req_frame(via):
    """frame_buf holding an address request that arrived directly (0o4444) or through a relay"""
    hdr = Obj("structs:RF24NetworkHeader", {"from_node": via, "to_node": Int(0, 0xFFFF), "frame_id": Int(0, 0xFFFF),
                                            "message_type": Int(0, 255), "reserved": Int(0, 255)})
    return Obj("structs:RF24NetworkFrame", {"header": hdr, "message": Bytes(0, 24)})


R = "spec.mesh:"
MPOL = dict(POL)
MPOL.update({
    "mixins:NetworkMixin._write": "ref:" + R + "abs_write_m",
    "mixins:NetworkMixin._net_update": "ref:" + R + "abs_net_update_m",
    "rf24_mesh:RF24Mesh.*": "inline", "rf24_mesh:RF24MeshNoMaster.*": "inline",
    "mixins:NetworkMixin._begin": "ref:spec.c07:abs_begin",
})
MASTER = dict(node_id=Const(0), addr=Const(0))
RM = "rf24_mesh:RF24Mesh."

CONTRACTS = [
] + [
    Contract("C16._dhcp[table=%d,%s]" % (n, vn), RM + "_dhcp",
             {"self": mesh_schema(table=DictOf(n, Int(1, 255), Int(1, 4095)), frame=_req_frame(via), **MASTER)},
             requires=[R + "req_dhcp"], ensures=[("alloc", R + "ens_dhcp")], raises=(), policy=MPOL, props=["C16"],
             replayable=False, max_paths=20000)
    for n in range(TDHCP + 1) for (vn, via) in (("direct", Const(DEFAULT)), ("relayed", Int(0, 4095)))
] + [
    Contract("C16.set_address", RM + "set_address",
             {"self": Obj("rf24_mesh:RF24Mesh", {"dhcp_dict": OneOf(*[DictOf(n, Int(0, 255), Int(0, 4095)) for n in range(TMAX + 1)])}),
              "node_id": Int(0, 255), "node_address": Int(0, 4095), "search_by_address": Bool()},
             ensures=[("mapping", R + "ens_set_address"), ("keeps_D", R + "ens_set_address_d")], raises=(), policy=MPOL, props=["C16"]),
    Contract("C16.release_address", RM + "release_address",
             {"self": Obj("rf24_mesh:RF24Mesh", {"dhcp_dict": OneOf(*[DictOf(n, Int(1, 255), Int(1, 4095)) for n in range(TMAX + 1)])}),
              "address": Int(1, 4095)},
             requires=[R + "req_nonzero"], ensures=[("released", R + "ens_release")], raises=(), policy=MPOL, props=["C16", "C17"]),
    Contract("C17._get_address", RM + "_get_address",
             {"self": Obj("rf24_mesh:RF24Mesh", {"dhcp_dict": OneOf(*[DictOf(n, Int(1, 255), Int(1, 4095)) for n in range(TMAX + 1)])}),
              "number": Int(), "lookup_type": OneOf(Const(196), Const(198))},
             requires=[R + "req_get_address"], ensures=[("mapping", R + "ens_get_address")], raises=(), policy=MPOL, props=["C17", "C16"]),
]


def _upd(name, trange, tmax, do_dhcp=None):
    return Contract("C15.master.update[%s]" % name, RM + "update",
                    {"self": mesh_schema(tmax=tmax, trange=trange, do_dhcp=do_dhcp, **MASTER)}, requires=[R + "req_master_update"],
                    ensures=[("noexc_and_table", R + "ens_master_update"), ("lookup_reply", R + "ens_lookup_reply")], raises=(),
                    policy=MPOL, props=["C15", "C16", "C17"], replayable=False, max_paths=30000)


# the six cases cover every reported type 0..255
CONTRACTS += [
    _upd("type<195", (0, 194), 2, Const(False)),
    _upd("type>198", (199, 255), 2, Const(False)),
    _upd("request", (195, 195), 1 if THOROUGH else 0),
    _upd("addr_lookup", (196, 196), 2, Const(False)),
    _upd("release", (197, 197), 2, Const(False)),
    _upd("id_lookup", (198, 198), 2, Const(False)),
]


# ------------------------------------------------------------------ persistence, binary format (4-byte records)

FN = "/tmp/pyvc_dhcp_scratch.bin"


def records(d):
    """the documented binary format: per lease [id, 0, address LSB, address MSB]"""
    out = b""
    for k, v in d.items():
        out = out + bytes([k, 0, v % 256, v // 256])
    return out


def ens_saved(self, old_self, exc):
    f = open(FN, "rb")
    data = f.read()
    f.close()
    return exc is None and data == records(old_self.dhcp_dict) and same_table(self.dhcp_dict, old_self.dhcp_dict)


def setup_file_from_other(self):
    f = open(FN, "wb")
    f.write(records(self.other))
    f.close()


def req_load(self):
    return d_inv(self.dhcp_dict) and d_inv(self.other)


def ens_loaded(self, old_self, exc):
    """every saved lease is in force again and no two IDs share an address -- also when the table
    changed since it was saved (save/load cycles of C16's histories)"""
    d = self.dhcp_dict
    ok = exc is None and d_inv(d)
    for k, v in old_self.other.items():
        ok = ok and lookup_id(d, k) == v
    return ok


def ens_loaded_exact(self, old_self, exc):
    """into an empty table: reproduces the saved table exactly"""
    return implies(len(old_self.dhcp_dict) == 0, same_table(self.dhcp_dict, old_self.other))


def _tbl(n):
    return DictOf(n, Int(1, 255), Int(1, 4095))


CONTRACTS += [
    Contract("C16.save_dhcp.bin", RM + "save_dhcp",
             {"self": Obj("rf24_mesh:RF24Mesh", {"dhcp_dict": OneOf(*[_tbl(n) for n in range(TMAX + 1)])}),
              "filename": Const(FN), "as_bin": Const(True)},
             requires=[R + "req_persist"], ensures=[("format", R + "ens_saved")], raises=(), policy=MPOL, props=["C16"]),
] + [
    Contract("C16.load_dhcp.bin[%d into %d]" % (m, n), RM + "load_dhcp",
             {"self": Obj("rf24_mesh:RF24Mesh", {"dhcp_dict": _tbl(n), "other": _tbl(m)}), "filename": Const(FN), "as_bin": Const(True)},
             setup=[R + "setup_file_from_other"], requires=[R + "req_load"],
             ensures=[("D_and_leases", R + "ens_loaded"), ("exact", R + "ens_loaded_exact")], raises=(), policy=MPOL, props=["C16"])
    for (m, n) in ((0, 0), (1, 0), (2, 0), (3, 0), (1, 1), (2, 1), (1, 2), (2, 2))
] + [
    Contract("C15.mesh_node.update", "rf24_mesh:RF24MeshNoMaster.update", {"self": mesh_schema(cls="rf24_mesh:RF24MeshNoMaster")},
             requires=["spec.c07:req_update"], ensures=[("listening", "spec.c07:ens_node_ok")], raises=(), policy=MPOL,
             props=["C15", "C07"], replayable=False),
]
