"""C01 -- link payload integrity: write() loads exactly the documented payload, read()/any()
(spec/c10.py) return exactly the head payload, the SPI primitives frame exactly one CSN
transaction, and the caller's buffer is never modified."""
from pyvc.cdef import Contract, Lemma
from pyvc.schema import Int, Bool, Const, Bytes, ByteArray, OneOf, Obj, Share
from pyvc.specrt import implies, ite, is_fresh
from spec.rf24_state import rf24_schema, radio_schema, inv, view_cfg
from spec.c10 import view_io
from spec.c03 import PRIMS


def tx_payload(self, buf):
    """what must reach the radio: buf itself (dynamic), else buf zero-padded / truncated to the
    static length configured for pipe 0"""
    hw = self._spi.hw
    dyn = (hw.reg[0x1C] & 1) != 0
    if dyn:
        return bytes(buf)
    ln = hw.reg[0x11]
    n = len(buf)
    return (bytes(buf) + bytes(max(0, ln - n)))[:ln]


def ref_write(self, buf, ask_no_ack, write_only):
    hw = self._spi.hw
    dyn = (hw.reg[0x1C] & 1) != 0
    if dyn and (len(buf) == 0 or len(buf) > 32):
        raise ValueError()
    p = tx_payload(self, buf)
    # 1) the three latches are cleared (write-1-to-clear); STATUS comes back first
    self._in[0] = hw.status()
    hw.reg[7] = hw.reg[7] & 0x8F
    if self._in[0] & 1:
        return False             # TX FIFO full: nothing loaded
    # 2) exactly one W_TX_PAYLOAD / W_TX_PAYLOAD_NOACK frame carrying exactly p
    cmd = ite(bool(ask_no_ack), 0xB0, 0xA0)
    miso = hw.xfer(bytes([cmd]) + p)
    self._in[0] = miso[0]
    if not write_only:
        hw.set_ce(True)
    return True


def ens_buf_untouched(buf, old_buf):
    """the caller's buffer object is never modified (frame condition on the argument)"""
    return bytes(buf) == bytes(old_buf)


def ens_reject_silent(self, old_self, exc):
    """a rejected payload raises before anything reaches the radio"""
    return implies(exc is not None, exc == "ValueError" and self._spi.hw.frames == old_self._spi.hw.frames
                   and view_io(self) == view_io(old_self))


def ens_loaded_is_payload(self, old_self, old_buf, result, exc):
    """when write() reports True the TX FIFO's new tail is byte-for-byte the payload"""
    hw = self._spi.hw
    ohw = old_self._spi.hw
    if exc is not None or not result:
        return True
    p = tx_payload(old_self, old_buf)
    i = ohw.tx_n
    return (hw.tx_n == i + 1 and i < 3 and hw.loaded == ohw.loaded + 1
            and hw.tx_len[ite(i < 3, i, 0)] == len(p)
            and hw.tx_data[ite(i < 3, i, 0)][:len(p)] == p)


# ------------------------------------------------------------------ SPI primitives

def req_reg(self, reg):
    return True


def ref_reg_read(self, reg):
    """one 2-byte frame [reg, x]; returns MISO[1]; caches STATUS"""
    hw = self._spi.hw
    self._out[0] = reg
    miso = hw.xfer(bytes([reg, self._out[1]]))
    self._in[0] = miso[0]
    self._in[1] = miso[1]
    return miso[1]


def ref_reg_write(self, reg, value):
    hw = self._spi.hw
    if value is None:
        self._out[0] = reg
        miso = hw.xfer(bytes([reg]))
        self._in[0] = miso[0]
        return
    cmd = ite(reg != 0x50, 0x20, 0) | reg
    self._out[0] = cmd
    self._out[1] = value
    miso = hw.xfer(bytes([cmd, value]))
    self._in[0] = miso[0]
    self._in[1] = miso[1]


def req_write_bytes(self, reg, out_buf):
    return len(out_buf) <= 32 and (0x20 | reg) <= 255


def ref_reg_write_bytes(self, reg, out_buf):
    """one frame [0x20|reg] + out_buf verbatim"""
    hw = self._spi.hw
    n = len(out_buf)
    self._out[0] = 0x20 | reg
    self._out[1:n + 1] = out_buf
    miso = hw.xfer(bytes([0x20 | reg]) + bytes(out_buf))
    self._in[0:n + 1] = miso


def req_read_bytes(self, reg, buf_len):
    return 0 <= buf_len and buf_len <= 96


def ref_reg_read_bytes(self, reg, buf_len):
    hw = self._spi.hw
    self._out[0] = reg
    miso = hw.xfer(bytes(self._out[0:buf_len + 1]))
    self._in[0:buf_len + 1] = miso
    return bytes(miso[1:])


def view_bufs(self):
    return view_cfg(self) + (("_in", bytes(self._in)), ("_out", bytes(self._out)), ("frames", self._spi.hw.frames))


def ens_fresh(result):
    return is_fresh(result)


# ------------------------------------------------------------------ SPIDevCtx (Linux spidev wrapper)

def ctx_schema():
    return Obj("cpy_spidev:SPIDevCtx", {
        "_spi": Obj("spec.hw:SpiDevStub", {"hw": radio_schema(), "opened": Int(0, 1), "no_cs": Bool()}),
        "_baudrate": Int(1, 32000000), "_no_cs": Const(False), "_bus": Int(0, 3), "_dev": Int(0, 3), "_csn": Int(0, 31)})


def ref_ctx_write_readinto(self, out_buf, in_buf, in_end, out_end):
    """exactly one CSN frame with MOSI = out_buf[:out_end]; MISO lands in in_buf[:in_end]"""
    n = out_end if out_end is not None else len(out_buf)
    m = in_end if in_end is not None else len(in_buf)
    miso = self._spi.hw.xfer(bytes(out_buf[:n]))
    in_buf[:m] = miso


def req_ctx(self, out_buf, in_buf, in_end, out_end):
    """the driver always transfers equal slices of its two 97-byte buffers"""
    return in_end == out_end and 0 <= out_end and out_end <= 97


def view_ctx(self):
    hw = self._spi.hw
    return (("frames", hw.frames), ("rx_n", hw.rx_n), ("tx_n", hw.tx_n), ("reg", tuple_of(hw.reg)))


def tuple_of(lst):
    t = ()
    for x in lst:
        t = t + (x,)
    return t


def ens_ctx_bufs(in_buf, out_buf, old_out_buf):
    return bytes(out_buf) == bytes(old_out_buf) and len(in_buf) == 97


R = "spec.c01:"
ST = "spec.rf24_state:"
WPOL = dict(PRIMS)
WPOL["rf24:RF24.clear_status_flags"] = "ref:spec.c10:ref_clear_status_flags"
BUF = OneOf(Bytes(0, None), ByteArray(0, None))
FLAG = OneOf(Bool(), Int())

def _write(name, buf):
    return Contract(name, "rf24:RF24.write", {"self": rf24_schema(p0=Const(None)), "buf": buf, "ask_no_ack": Bool(), "write_only": Bool()},
                    requires=[ST + "inv"], refines=R + "ref_write", view="spec.c10:view_io",
                    ensures=[("inv", ST + "post_inv"), ("buf_untouched", R + "ens_buf_untouched"), ("reject_silent", R + "ens_reject_silent"),
                             ("loaded_is_payload", R + "ens_loaded_is_payload")],
                    policy=WPOL, props=["C01"], timeout_ms=60000)


CONTRACTS = [
    _write("C01.write[bytes]", Bytes(0, None)),
    _write("C01.write[bytearray]", ByteArray(0, None)),
    Contract("C01.prim._reg_read", "rf24:RF24._reg_read", {"self": rf24_schema(p0=Const(None)), "reg": Int(0, 255)},
             refines=R + "ref_reg_read", view=R + "view_bufs", props=["C01"]),
    Contract("C01.prim._reg_write", "rf24:RF24._reg_write", {"self": rf24_schema(p0=Const(None)), "reg": Int(0, 255), "value": OneOf(Const(None), Int(0, 255))},
             refines=R + "ref_reg_write", view=R + "view_bufs", props=["C01"]),
    Contract("C01.prim._reg_write_bytes", "rf24:RF24._reg_write_bytes", {"self": rf24_schema(p0=Const(None)), "reg": Int(0, 255), "out_buf": BUF},
             requires=[R + "req_write_bytes"], refines=R + "ref_reg_write_bytes", view=R + "view_bufs", props=["C01"]),
    Contract("C01.prim._reg_read_bytes", "rf24:RF24._reg_read_bytes", {"self": rf24_schema(p0=Const(None)), "reg": Int(0, 255), "buf_len": Int(0, 96)},
             requires=[R + "req_read_bytes"], refines=R + "ref_reg_read_bytes", view=R + "view_bufs",
             ensures=[("fresh", R + "ens_fresh")], props=["C01"]),
    Contract("C01.SPIDevCtx.write_readinto", "cpy_spidev:SPIDevCtx.write_readinto",
             {"self": ctx_schema(), "out_buf": ByteArray(97, 97), "in_buf": ByteArray(97, 97), "in_end": Int(0, 97), "out_end": Int(0, 97)},
             requires=[R + "req_ctx"], refines=R + "ref_ctx_write_readinto", view=R + "view_ctx",
             ensures=[("bufs", R + "ens_ctx_bufs")], props=["C01"]),
]
