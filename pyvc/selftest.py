"""Engine self-test run by MANIFEST.setup_cmd: a few obligations with known answers, including
ones that MUST be refuted (an engine that proves everything is unsound)."""
import os
import sys

VERIF = os.path.dirname(os.path.dirname(os.path.abspath(__file__)))
sys.path.insert(0, VERIF)


def main():
    from pyvc.frontend import Program
    from pyvc.explore import explore
    from pyvc.driver import lemma_driver
    from pyvc.cdef import Lemma
    from pyvc.schema import Int, Bytes
    prog = Program("/repo", VERIF)
    cases = [
        (Lemma("st.clamp", {"v": Int()}, "spec.selftest_spec:lemma_clamp_ok"), "unsat"),
        (Lemma("st.false", {"v": Int()}, "spec.selftest_spec:lemma_false"), "sat"),
        (Lemma("st.bytes", {"b": Bytes(0, None)}, "spec.selftest_spec:lemma_bytes"), "unsat"),
        (Lemma("st.loop", {"n": Int(0, 12)}, "spec.selftest_spec:lemma_loop"), "unsat"),
    ]
    # the termination rules must be able to FAIL: a timeout loop that never consults the clock has no variant,
    # and a loop that outruns its stated turn bound is refuted (an engine that proves these is unsound)
    from pyvc.driver import contract_driver
    from pyvc.cdef import Contract, LoopSpec
    S = "spec.selftest_spec:"
    for name, tgt, want in (("st.var.ok", "wait_ok", "unsat"), ("st.var.bad", "wait_bad", "sat")):
        cases.append((Contract(name, S + tgt, {"d": Int(0, 1000)}, ensures=[("nonneg", S + "ens_wait")], raises=(),
                               loops={(S + tgt, 0): LoopSpec(S + "inv_wait", variant=S + "var_wait")}), want))
    cases.append((Contract("st.turns.ok", S + "loopy", {"n": Int(0, 12)}, ensures=[("nonneg", S + "ens_wait")], raises=(), poll_bound=12), "unsat"))
    cases.append((Contract("st.turns.bad", S + "loopy", {"n": Int(0, 12)}, ensures=[("nonneg", S + "ens_wait")], raises=(), poll_bound=3), "sat"))
    bad = 0
    for lm, want in cases:
        drv = contract_driver(prog, lm) if isinstance(lm, Contract) else lemma_driver(prog, lm)
        res = explore(prog, lm.name, drv, timeout_ms=20000)
        sts = set(o.status for o in res.obligations)
        got = "sat" if "sat" in sts else ("unknown" if "unknown" in sts or res.unsupported else "unsat")
        if not res.obligations:
            got = "none"
        ok = got == want
        print("selftest %-10s want=%-6s got=%-6s %s %s" % (lm.name, want, got, "ok" if ok else "FAIL", res.unsupported[:1]))
        bad += 0 if ok else 1
    return 1 if bad else 0


if __name__ == "__main__":
    sys.exit(main())
