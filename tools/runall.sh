#!/bin/sh
# run every registered check (quick tier) and summarise
cd /verif
for p in $(python3-vt -c "
import sys; sys.path.insert(0,'/verif')
from spec import registry
print(' '.join(sorted(registry.PROPERTIES)))"); do
  s=$(date +%s)
  out=$(bin/check $p "$@" 2>&1)
  rc=$?
  e=$(date +%s)
  echo "$p rc=$rc $((e-s))s :: $(echo "$out" | grep -E "^C[0-9]+:" | tail -1)"
  echo "$out" | grep -E "VIOLATION|UNDECIDED|FAULT" | head -5
done
