"""Reference functions of the RF24Network address tree, written on octal digits (arithmetic
// and %), independently of the masks the code uses.  Sources: /repo/docs/network_docs/topology.rst
and TMRh20's RF24Network addressing scheme."""
from pyvc.specrt import implies, ite


def digit(a, k):
    """k-th octal digit (k = 0 is the least significant = the level-1 ancestor's slot)"""
    return (a // (8 ** k)) % 8


def level(a):
    """number of octal digits of a (0 for the master)"""
    return ite(a == 0, 0, ite(a < 8, 1, ite(a < 64, 2, ite(a < 512, 3, ite(a < 4096, 4, 5)))))


def valid_node(a):
    """a logical node address: 0, or one to four octal digits each in 1..5"""
    d0 = digit(a, 0)
    d1 = digit(a, 1)
    d2 = digit(a, 2)
    d3 = digit(a, 3)
    ok0 = 1 <= d0 and d0 <= 5
    ok1 = 1 <= d1 and d1 <= 5
    ok2 = 1 <= d2 and d2 <= 5
    ok3 = 1 <= d3 and d3 <= 5
    return (a == 0
            or (0 < a and a < 8 and ok0)
            or (8 <= a and a < 64 and ok0 and ok1)
            or (64 <= a and a < 512 and ok0 and ok1 and ok2)
            or (512 <= a and a < 4096 and ok0 and ok1 and ok2 and ok3))


def valid_address(a):
    """what is_address_valid must accept: a node address or a reserved multicast address"""
    return valid_node(a) or a == 0o100 or a == 0o10 or a == 0o1000


def pow8(lv):
    return ite(lv == 0, 1, ite(lv == 1, 8, ite(lv == 2, 64, ite(lv == 3, 512, ite(lv == 4, 4096, 32768)))))


def low_digits(a, n):
    """a % 8**n : the n least significant octal digits (n in 0..5)"""
    return ite(n <= 0, 0, ite(n == 1, a % 8, ite(n == 2, a % 64, ite(n == 3, a % 512, ite(n == 4, a % 4096, a % 32768)))))


def drop_digits(a, n):
    """a // 8**n"""
    return ite(n <= 0, a, ite(n == 1, a // 8, ite(n == 2, a // 64, ite(n == 3, a // 512, ite(n == 4, a // 4096, a // 32768)))))


def parent(a):
    """drop the most significant digit"""
    return low_digits(a, level(a) - 1)


def top_digit(a):
    lv = level(a)
    return ite(lv == 0, 0, drop_digits(a, lv - 1))


def is_descendant(me, to):
    """to lies strictly below me in the tree"""
    return to != me and level(to) > level(me) and low_digits(to, level(me)) == me


def child_toward(me, to):
    """the direct child of me on the path to its descendant to"""
    return low_digits(to, level(me) + 1)


def next_hop(me, to):
    return ite(is_descendant(me, to), child_toward(me, to), parent(me))


def pipe_to(me, to):
    """a parent reaches its child on the child's pipe 5; a child reaches its parent on the
    parent's pipe numbered by the child's own (most significant) digit"""
    return ite(is_descendant(me, to), 5, top_digit(me))


def level_addr(lv):
    """a representative address of network level lv (what _lvl_2_addr must return)"""
    return ite(lv == 0, 0, pow8(lv - 1))


def pipe_address(prefix, suffix, node, pipe, multicast):
    """the 5-byte physical address (LSByte first) of `pipe` of `node`.

    unicast form (pipe != 0, or the master, or multicast disabled): byte 0 = suffix[pipe], byte k
    (1..4) = suffix[digit k-1 of node] for the digits the node has, prefix elsewhere;
    level form (pipe 0 of a non-master node with multicast enabled): prefix everywhere except
    byte 1 = suffix[level of node]"""
    lv = level(node)
    uni = (not multicast) or pipe != 0 or node == 0
    b0 = ite(uni, _sx(suffix, pipe), prefix)
    d1 = ite(lv >= 1, _sx(suffix, digit(node, 0)), prefix)
    b1 = ite(uni, d1, _sx(suffix, lv))
    b2 = ite(uni and lv >= 2, _sx(suffix, digit(node, 1)), prefix)
    b3 = ite(uni and lv >= 3, _sx(suffix, digit(node, 2)), prefix)
    b4 = ite(uni and lv >= 4, _sx(suffix, digit(node, 3)), prefix)
    return bytes([b0, b1, b2, b3, b4])


def _sx(suffix, d):
    """suffix[d]; total (digits 6, 7 never occur in a valid address)"""
    return suffix[ite(0 <= d and d <= 5, d, 0)]


def distinct_bytes(prefix, suffix):
    """configuration hypothesis of C04: the six suffix bytes and the prefix byte are pairwise
    distinct"""
    ok = True
    for i in range(6):
        ok = ok and suffix[i] != prefix
        for j in range(i):
            ok = ok and suffix[i] != suffix[j]
    return ok
