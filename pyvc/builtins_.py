"""Built-in functions, types and methods with their Python failure conditions (DESIGN 3.5)."""
import z3
from . import sym, bts, ops
from .sym import SInt, SBool, SFloat, SRatio, Unsupported, cmp, b_and, b_or, b_not, i_ite, is_conc
from .core import (Ref, HObj, HList, HByteArray, HDict, HSet, VBytes, VStr, BuiltinType, BuiltinFn,
                   BoundBuiltin, BoundMethod, ModuleVal, Opaque, TypeOfVal, LambdaVal, PyRaise, ImpureAbort)
from .frontend import FuncInfo, ClassInfo


def _need(args, lo, hi, name):
    if not (lo <= len(args) <= hi):
        raise PyRaise("TypeError", "%s() takes %d..%d arguments" % (name, lo, hi))


def make_builtins(it):
    from .interp import RangeVal, EnumVal
    b = {}
    for t in ("int", "bool", "bytes", "bytearray", "str", "list", "tuple", "float", "dict", "set", "object", "type"):
        b[t] = BuiltinType(t)

    def reg(name, fn):
        b[name] = BuiltinFn(name, fn)

    def f_len(it, args, kw):
        _need(args, 1, 1, "len")
        return ops.seq_len(it, args[0])
    reg("len", f_len)

    def f_min(it, args, kw):
        if len(args) == 1:
            args = list(it.iterate(args[0]))
        r = args[0]
        for x in args[1:]:
            r = sym.imin(r, x)
        return r
    reg("min", f_min)

    def f_max(it, args, kw):
        if len(args) == 1:
            args = list(it.iterate(args[0]))
        r = args[0]
        for x in args[1:]:
            r = sym.imax(r, x)
        return r
    reg("max", f_max)

    def f_abs(it, args, kw):
        return sym.iabs(args[0])
    reg("abs", f_abs)

    def f_range(it, args, kw):
        if len(args) == 1:
            return RangeVal(0, sym.as_int(args[0]), 1)
        if len(args) == 2:
            return RangeVal(sym.as_int(args[0]), sym.as_int(args[1]), 1)
        if not is_conc(args[2]) or args[2] == 0:
            raise Unsupported("range step")
        return RangeVal(sym.as_int(args[0]), sym.as_int(args[1]), args[2])
    reg("range", f_range)

    def f_enumerate(it, args, kw):
        return EnumVal(args[0], args[1] if len(args) > 1 else kw.get("start", 0))
    reg("enumerate", f_enumerate)

    def f_isinstance(it, args, kw):
        return ops.isinstance_(it, args[0], args[1])
    reg("isinstance", f_isinstance)

    def f_callable(it, args, kw):
        return isinstance(args[0], (FuncInfo, LambdaVal, BoundMethod, BoundBuiltin, BuiltinFn, ClassInfo, BuiltinType))
    reg("callable", f_callable)

    def f_ord(it, args, kw):
        if isinstance(args[0], str) and len(args[0]) == 1:
            return ord(args[0])
        raise Unsupported("ord of %r" % (args[0],))
    reg("ord", f_ord)

    def f_chr(it, args, kw):
        if is_conc(args[0]):
            return chr(args[0])
        raise Unsupported("chr of symbolic")
    reg("chr", f_chr)

    def f_print(it, args, kw):
        return None
    reg("print", f_print)

    def f_type(it, args, kw):
        tn = ops.type_name(it, args[0])
        if isinstance(tn, ClassInfo):
            return tn
        return BuiltinType(tn) if tn in b else TypeOfVal(str(tn))
    b["type"] = BuiltinFn("type", f_type)

    def f_hasattr(it, args, kw):
        try:
            it.getattr_(args[0], args[1])
            return True
        except PyRaise:
            return False
    reg("hasattr", f_hasattr)

    def f_open(it, args, kw):
        from .interp import FileVal
        name = args[0]
        mode = args[1] if len(args) > 1 else kw.get("mode", "r")
        fs = it.ctx.ghost.setdefault("fs", {})
        if "w" in mode:
            fv = FileVal(name, mode, VBytes(bts.from_bytes(b"")))
            fs[_fname(name)] = fv
            return fv
        if _fname(name) not in fs:
            raise PyRaise("OSError", "no such file")
        old = fs[_fname(name)]
        return FileVal(name, mode, old.content)
    reg("open", f_open)

    # ---- helpers with $ names (imports resolve to them)
    reg("$identity", lambda it, args, kw: args[0])
    reg("$noop", lambda it, args, kw: None)

    def f_urandom(it, args, kw):
        n = args[0]
        it.ctx.fresh_n += 1
        arr = z3.Array("urandom!%d" % it.ctx.fresh_n, z3.BitVecSort(64), z3.BitVecSort(8))
        return VBytes(bts.from_array(arr, sym.imax(0, n)))
    reg("$urandom", f_urandom)

    def f_spidevice(it, args, kw):
        # assumed contract of adafruit_bus_device.SPIDevice: a context manager that frames one
        # CSN-low transaction around write_readinto on the bus it wraps -> the bus stub itself
        return args[0]
    reg("$SPIDevice", f_spidevice)

    # ---- spec helpers (pyvc.specrt)
    def f_implies(it, args, kw):
        return sym.b_implies(ops.truthy(it, args[0]), ops.truthy(it, args[1]))
    reg("$implies", f_implies)

    def f_ite(it, args, kw):
        c = ops.truthy(it, args[0])
        if isinstance(c, bool):
            return args[1] if c else args[2]
        return it.merge_values(c, args[1], args[2])
    reg("$ite", f_ite)

    def f_forall(it, args, kw):
        lo, hi, fn = args
        if is_conc(lo) and is_conc(hi) and hi - lo <= 512:
            return b_and(*[ops.truthy(it, it.call(fn, [k], {})) for k in range(lo, hi)])
        it.ctx.fresh_n += 1
        i = z3.BitVec("q!%d" % it.ctx.fresh_n, 64)
        llo, _ = sym.rng(lo)
        _, hhi = sym.rng(hi)
        si = SInt(i, llo, max(hhi - 1, llo))
        it.enter_pure()
        try:
            body = ops.truthy(it, it.call(fn, [si], {}))
        except ImpureAbort:
            raise Unsupported("forall body is not pure")
        finally:
            it.leave_pure()
        guard = z3.And(i >= sym.bv(lo), i < sym.bv(hi))
        return sym.mkb(z3.ForAll([i], z3.Implies(guard, sym.bz(body))))
    reg("$forall", f_forall)

    def f_all_of(it, args, kw):
        return b_and(*[ops.truthy(it, x) for x in it.iterate(args[0])])
    reg("all", f_all_of)

    def f_any_of(it, args, kw):
        return b_or(*[ops.truthy(it, x) for x in it.iterate(args[0])])
    reg("any", f_any_of)

    def f_oracle_int(it, args, kw):
        """environment nondeterminism (A-HW oracle): a fresh value in [lo, hi]"""
        lo, hi = args[0], args[1]
        k = it.ctx.ghost.get("oracle_n", 0)
        it.ctx.ghost["oracle_n"] = k + 1
        return it.ctx.input_int("oracle[%d]" % k, lo, hi)
    reg("$oracle_int", f_oracle_int)

    def f_same_object(it, args, kw):
        return ops.identical(it, args[0], args[1])
    reg("$same_object", f_same_object)

    def f_is_fresh(it, args, kw):
        """object allocated after the entry snapshot"""
        v = args[0]
        if not isinstance(v, Ref):
            return True
        return v.oid >= it.ctx.ghost.get("entry_oid", 0)
    reg("$is_fresh", f_is_fresh)

    def _class_of(it, key):
        modname, _, cname = key.partition(":")
        mod = it.program.load(it.program.full_name(modname))
        ci = mod.globals.get(cname)
        if ci is None:
            raise Unsupported("class_attr: unknown class " + key)
        return ci

    def f_class_attr(it, args, kw):
        """class_attr('structs:RF24NetworkHeader', '__next_id'): current value of a class attribute
        (the class body's value unless the path has assigned it)"""
        ci = _class_of(it, args[0])
        owner, v = ci.find_attr(args[1])
        if owner is None:
            raise Unsupported("class_attr: no attribute " + args[1])
        return it.ctx.class_state.get((owner.key, args[1]), v)
    reg("$class_attr", f_class_attr)

    def f_set_class_attr(it, args, kw):
        ci = _class_of(it, args[0])
        owner, _ = ci.find_attr(args[1])
        it.ctx.class_state[((owner or ci).key, args[1])] = args[2]
        return None
    reg("$set_class_attr", f_set_class_attr)

    def f_bytes_of(it, args, kw):
        """immutable copy of a bytes-like (spec helper; same as bytes(x))"""
        t = ops.bytes_term(it, args[0])
        if t is None:
            raise PyRaise("TypeError", "bytes_of")
        return VBytes(t)
    reg("$bytes_of", f_bytes_of)

    def f_require(it, args, kw):
        """callee precondition stated inside a reference function: proved at every call site"""
        what = args[1] if len(args) > 1 and isinstance(args[1], str) else "pre"
        name = "%s.callsite[%s]" % (it.ctx.ghost.get("contract_name", "?"), what)
        if not it.ctx.ghost.get("in_body"):
            # outside the body under verification (reference side / ensures): plain assumption
            it.ctx.assume(ops.truthy(it, args[0]))
            return None
        it.ctx.oblige(name, ops.truthy(it, args[0]), info={"callsite": it.ctx.cur_func})
        return None
    reg("$require", f_require)

    def f_assume(it, args, kw):
        """postcondition of an abstracted callee (assume-post step of modular reasoning)"""
        it.ctx.assume(ops.truthy(it, args[0]))
        return None
    reg("$assume", f_assume)

    def f_uf_bytes(it, args, kw):
        """uf_bytes(name, fn, data, maxlen, outlen): fn(data) kept OPAQUE (an uninterpreted function of
        the length and the first maxlen cells) so that equal arguments give equal results by
        congruence without unfolding fn; exact when data is concrete"""
        name, fn, data, maxlen, outlen = args
        t = ops.bytes_term(it, data)
        if t is None:
            raise PyRaise("TypeError", "uf_bytes")
        if t.cells is not None and all(is_conc(c) for c in t.cells):
            return it.call(fn, [data], {})
        if not it.ctx.branch(cmp("<=", t.length, maxlen)):
            raise Unsupported("uf_bytes: argument longer than %d" % maxlen)
        key = ("uf", name, maxlen, outlen)
        f = it.ctx.ghost.get(key)
        if f is None:
            f = z3.Function("uf!" + name, *([z3.BitVecSort(64)] + [z3.BitVecSort(8)] * maxlen + [z3.BitVecSort(8 * outlen)]))
            it.ctx.ghost[key] = f
        cells = []
        for k in range(maxlen):
            inside = cmp("<", k, t.length)
            if inside is False:
                cells.append(z3.BitVecVal(0, 8))
                continue
            c = t.get(k) if inside is True else i_ite(inside, t.get(k), 0)
            cells.append(z3.simplify(bts.cell_to_bv8(c)))    # normal form: equal arguments become identical terms
        r = f(z3.simplify(sym.bv(t.length)), *cells)
        out = [bts.cell_from_bv8(z3.Extract(8 * (outlen - 1 - j) + 7, 8 * (outlen - 1 - j), r)) for j in range(outlen)]
        return VBytes(bts.from_cells(out))
    reg("$uf_bytes", f_uf_bytes)

    def f_unreachable(it, args, kw):
        raise PyRaise("SpecUnreachable")
    reg("$unreachable", f_unreachable)

    # ---- time
    def f_monotonic_ns(it, args, kw):
        prev = it.ctx.clock
        k = it.ctx.ghost.get("clock_n", 0)
        it.ctx.ghost["clock_n"] = k + 1
        v = it.ctx.input_int("clock[%d]" % k, 0, 1 << 61)
        if prev is not None:
            strict = getattr(it.ctx, "clock_strict", False)
            it.ctx.assume(cmp(">" if strict else ">=", v, prev))
        it.ctx.clock_strict = False
        it.ctx.clock = v
        return v
    reg("$time.monotonic_ns", f_monotonic_ns)

    def f_clock_now(it, args, kw):
        """spec helper: the value the last time.monotonic_ns() call returned (0 before the first)"""
        return it.ctx.clock if it.ctx.clock is not None else 0
    reg("$clock_now", f_clock_now)

    def f_clock_ns_of(it, args, kw):
        """spec helper: the ghost-clock value (ns) of a wall-clock float such as `timeout + time.monotonic()`"""
        v = args[0]
        if isinstance(v, SFloat) and v.ns is not None:
            return v.ns
        raise Unsupported("clock_ns_of: not a wall-clock value")
    reg("$clock_ns_of", f_clock_ns_of)

    def f_monotonic(it, args, kw):
        # float seconds of the SAME ghost clock as monotonic_ns()
        return SFloat(True, ns=f_monotonic_ns(it, args, kw))
    reg("$time.monotonic", f_monotonic)

    def f_sleep(it, args, kw):
        d = args[0]
        nn = ops.to_float_sign(d)
        if not it.ctx.branch(nn):
            raise PyRaise("ValueError", "sleep length must be non-negative")
        it.ctx.ghost["slept"] = it.ctx.ghost.get("slept", 0) + 1
        return None
    reg("$time.sleep", f_sleep)

    # ---- struct
    reg("$struct.pack", lambda it, args, kw: struct_pack(it, args))
    reg("$struct.unpack", lambda it, args, kw: struct_unpack(it, args))
    return b


def _fname(v):
    return v if isinstance(v, str) else "<file>"


# ============================================================================ types as callables

def call_type(it, t, args, kw):
    n = t.name
    if n == "int":
        if not args:
            return 0
        v = args[0]
        if isinstance(v, SRatio):
            return sym.truncdiv(v.num, v.den, ops._zero_div(it))
        if isinstance(v, float):
            return int(v)
        if ops.is_intlike(v):
            return sym.as_int(v)
        if isinstance(v, str):
            try:
                return int(v)
            except ValueError:
                raise PyRaise("ValueError", "int()")
        if isinstance(v, SFloat):
            raise Unsupported("int() of an opaque float")
        raise PyRaise("TypeError", "int() argument")
    if n == "bool":
        if not args:
            return False
        return ops.truthy(it, args[0])
    if n == "float":
        v = args[0]
        if is_conc(v) or isinstance(v, float):
            return float(v)
        return SFloat(ops.to_float_sign(v))
    if n in ("bytes", "bytearray"):
        term = _bytes_ctor(it, args)
        if n == "bytearray":
            return it.ctx.alloc(HByteArray(term))
        return VBytes(term)
    if n == "list":
        if not args:
            return it.ctx.alloc(HList([]))
        return it.ctx.alloc(HList(list(it.iterate(args[0]))))
    if n == "tuple":
        if not args:
            return ()
        return tuple(it.iterate(args[0]))
    if n == "set":
        if args:
            raise Unsupported("set(iterable)")
        return it.ctx.alloc(HSet([]))
    if n == "dict":
        if args or kw:
            raise Unsupported("dict(args)")
        return it.ctx.alloc(HDict())
    if n == "str":
        if args and isinstance(args[0], str):
            return args[0]
        return VStr("str()")
    if n == "type":
        return it.builtins["type"].fn(it, args, kw)
    if n == "object":
        raise Unsupported("object()")
    raise Unsupported("constructor " + n)


def _bytes_ctor(it, args):
    if not args:
        return bts.from_bytes(b"")
    v = args[0]
    if ops.is_intlike(v):
        v = sym.as_int(v)
        if not it.ctx.branch(cmp(">=", v, 0)):
            raise PyRaise("ValueError", "negative count")
        return bts.zeros(v)
    t = ops.bytes_term(it, v)
    if t is not None:
        return t
    if isinstance(v, Ref) and isinstance(it.ctx.obj(v), ops.HSeq):
        return it.ctx.obj(v).term
    if isinstance(v, str):
        raise PyRaise("TypeError", "string argument without an encoding")
    # iterable of ints
    cells = []
    for x in it.iterate(v):
        cells.append(ops.byte_value_check(it, x))
    return bts.from_cells(cells)


# ============================================================================ methods of builtin values

def call_method(it, recv, name, args, kw):
    ctx = it.ctx
    if isinstance(recv, Ref):
        o = ctx.obj(recv)
        if isinstance(o, HList):
            if name == "append":
                ctx.mutate(recv).items.append(args[0])
                return None
            if name == "pop":
                if not o.items:
                    raise PyRaise("IndexError", "pop from empty list")
                idx = args[0] if args else -1
                i = ops.concretize(it, ops.norm_index(it, idx, len(o.items)), len(o.items))
                return ctx.mutate(recv).items.pop(i)
            if name == "insert":
                if not is_conc(args[0]):
                    raise Unsupported("list.insert symbolic")
                ctx.mutate(recv).items.insert(args[0], args[1])
                return None
            if name == "extend":
                ctx.mutate(recv).items.extend(list(it.iterate(args[0])))
                return None
            if name == "clear":
                del ctx.mutate(recv).items[:]
                return None
            if name == "copy":
                return ctx.alloc(HList(list(o.items)))
            raise Unsupported("list." + name)
        if isinstance(o, HDict):
            from .interp import DictItems
            if name in ("items", "keys", "values"):
                return DictItems(recv, name)
            if name == "get":
                for k, v in zip(o.keys, o.vals):
                    if ctx.branch(ops.values_eq(it, k, args[0])):
                        return v
                return args[1] if len(args) > 1 else None
            if name == "clear":
                d = ctx.mutate(recv)
                d.keys, d.vals = [], []
                return None
            if name == "pop":
                for i, (k, v) in enumerate(zip(o.keys, o.vals)):
                    if ctx.branch(ops.values_eq(it, k, args[0])):
                        d = ctx.mutate(recv)
                        del d.keys[i]
                        del d.vals[i]
                        return v
                if len(args) > 1:
                    return args[1]
                raise PyRaise("KeyError", "dict.pop")
            if name == "setdefault":
                for k, v in zip(o.keys, o.vals):
                    if ctx.branch(ops.values_eq(it, k, args[0])):
                        return v
                d = ctx.mutate(recv)
                d.keys.append(args[0])
                d.vals.append(args[1] if len(args) > 1 else None)
                return d.vals[-1]
            raise Unsupported("dict." + name)
        if isinstance(o, HSet):
            if name == "add":
                for x in o.items:
                    if ctx.branch(ops.values_eq(it, x, args[0])):
                        return None
                ctx.mutate(recv).items.append(args[0])
                return None
            if name == "clear":
                del ctx.mutate(recv).items[:]
                return None
            if name == "discard" or name == "remove":
                for i, x in enumerate(o.items):
                    if ctx.branch(ops.values_eq(it, x, args[0])):
                        del ctx.mutate(recv).items[i]
                        return None
                if name == "remove":
                    raise PyRaise("KeyError", "set.remove")
                return None
            raise Unsupported("set." + name)
    t = ops.bytes_term(it, recv)
    if t is not None:
        if name == "decode":
            # assumed contract (DESIGN 3.5): returns a str or raises UnicodeError
            k = ctx.ghost.get("decode_n", 0)
            ctx.ghost["decode_n"] = k + 1
            ok = ctx.input_bool("decode_ok[%d]" % k)
            if ctx.branch(ok):
                return VStr("decoded")
            raise PyRaise("UnicodeDecodeError")
        if name == "hex" or name == "startswith" or name == "find":
            raise Unsupported("bytes." + name)
        if name in ("append", "extend") and isinstance(recv, Ref):
            o = ctx.mutate(recv)
            if name == "append":
                v = ops.byte_value_check(it, args[0])
                o.term = bts.concat(o.term, bts.from_cells([v]))
            else:
                o.term = bts.concat(o.term, ops.bytes_term(it, args[0]))
            return None
        raise Unsupported("bytes." + name)
    if ops.is_intlike(recv):
        if name == "to_bytes":
            return int_to_bytes(it, sym.as_int(recv), args, kw)
        raise Unsupported("int." + name)
    if isinstance(recv, tuple):
        if name == "index":
            for k, x in enumerate(recv):
                if ctx.branch(ops.values_eq(it, x, args[0])):
                    return k
            raise PyRaise("ValueError", "tuple.index(x): x not in tuple")
        if name == "count":
            return sum(1 for x in recv if ctx.branch(ops.values_eq(it, x, args[0])))
        raise Unsupported("tuple." + name)
    if isinstance(recv, str):
        if name == "format":
            return VStr("fmt")
        if name == "encode":
            return VBytes(bts.from_bytes(recv.encode(*[a for a in args if isinstance(a, str)])))
        if all(isinstance(a, (str, int, tuple)) for a in args) and name in (
                "endswith", "startswith", "replace", "join", "lower", "upper", "strip", "split"):
            if name == "join":
                raise Unsupported("str.join")
            return getattr(recv, name)(*args)
        raise Unsupported("str." + name)
    if isinstance(recv, VStr):
        if name == "format":
            return VStr("fmt")
        raise Unsupported("opaque str." + name)
    from .interp import FileVal
    if isinstance(recv, FileVal):
        if name == "write":
            t2 = ops.bytes_term(it, args[0])
            if t2 is None:
                raise PyRaise("TypeError", "a bytes-like object is required")
            recv.content = VBytes(bts.concat(recv.content.term, t2))
            return t2.length
        if name == "read":
            return recv.content
        if name == "close":
            return None
        raise Unsupported("file." + name)
    raise Unsupported("method %s on %r" % (name, ops.type_name(it, recv)))


def int_to_bytes(it, v, args, kw):
    n = args[0] if args else kw.get("length", 1)
    order = args[1] if len(args) > 1 else kw.get("byteorder", "big")
    if not is_conc(n) or order not in ("big", "little"):
        raise Unsupported("to_bytes with symbolic length")
    if kw.get("signed", False):
        raise Unsupported("to_bytes(signed=True)")
    lim = 1 << (8 * n)
    ok = b_and(cmp(">=", v, 0), cmp("<", v, lim)) if 8 * n < 63 else cmp(">=", v, 0)
    if not it.ctx.branch(ok):
        raise PyRaise("OverflowError", "int too big to convert")
    cells = [sym.band(sym.shr(v, 8 * k, lambda c: None), 0xFF) for k in range(n)]
    if order == "big":
        cells.reverse()
    return VBytes(bts.from_cells(cells))


# ============================================================================ struct

FMT = {"B": (1, False), "b": (1, True), "H": (2, False), "h": (2, True), "I": (4, False), "i": (4, True)}


def _parse_fmt(fmt):
    if not isinstance(fmt, str):
        raise Unsupported("symbolic struct format")
    order = "<"  # native is assumed little-endian, unpadded for the formats in use (A-LE)
    native = True
    if fmt and fmt[0] in "<>!=@":
        native = fmt[0] == "@"
        order = ">" if fmt[0] in ">!" else "<"
        fmt = fmt[1:]
    items = []
    for ch in fmt:
        if ch not in FMT:
            raise Unsupported("struct format char %r" % ch)
        items.append(FMT[ch])
    if native:
        # native alignment: every format used in the repository is naturally aligned already
        off = 0
        for size, _ in items:
            if off % size:
                raise Unsupported("struct native padding")
            off += size
    return order, items


def struct_pack(it, args):
    order, items = _parse_fmt(args[0])
    vals = args[1:]
    if len(vals) != len(items):
        raise PyRaise("struct.error", "pack expected %d items" % len(items))
    cells = []
    for (size, signed), v in zip(items, vals):
        if not ops.is_intlike(v):
            raise PyRaise("struct.error", "required argument is not an integer")
        v = sym.as_int(v)
        bits = 8 * size
        lo, hi = (-(1 << (bits - 1)), (1 << (bits - 1)) - 1) if signed else (0, (1 << bits) - 1)
        ok = b_and(cmp(">=", v, lo), cmp("<=", v, hi))
        if not it.ctx.branch(ok):
            raise PyRaise("struct.error", "argument out of range")
        bs = [sym.band(sym.shr(v, 8 * k, lambda c: None), 0xFF) for k in range(size)]
        if order == ">":
            bs.reverse()
        cells.extend(bs)
    return VBytes(bts.from_cells(cells))


def struct_unpack(it, args):
    order, items = _parse_fmt(args[0])
    t = ops.bytes_term(it, args[1])
    if t is None:
        raise PyRaise("TypeError", "a bytes-like object is required")
    total = sum(s for s, _ in items)
    if not it.ctx.branch(cmp("==", t.length, total)):
        raise PyRaise("struct.error", "unpack requires a buffer of %d bytes" % total)
    out = []
    off = 0
    for size, signed in items:
        bs = [t.get(off + k) for k in range(size)]
        if order == ">":
            bs.reverse()
        v = 0
        for k, c in enumerate(bs):
            v = sym.bor(v, sym.shl(c, 8 * k, lambda c_: None))
        if signed:
            bits = 8 * size
            v = sym.sub(sym.bxor(v, 1 << (bits - 1)), 1 << (bits - 1))
        out.append(v)
        off += size
    return tuple(out)
