"""Native demonstration (real code + executable A-HW contract): the mesh master's address reply
is retried from a frame buffer that was overwritten while _write() waited for the NETWORK_ACK.

usage: PYTHONPATH=/verif /venv/bin/python demos/dhcp_retry_clobbered_frame.py [--repo DIR]
exit 1 (and a traceback) when update() raises, 0 otherwise."""
import struct, sys, time
repo = sys.argv[sys.argv.index("--repo") + 1] if "--repo" in sys.argv else "/repo"
sys.path.insert(0, repo)
sys.path.insert(0, "/verif")
from pyvc import schema as S, specrt
from spec.mesh import mesh_schema
from pyvc.schema import Const, DictOf, Int

clk = [0]
time.monotonic_ns = lambda: clk.__setitem__(0, clk[0] + 1000000) or clk[0]
time.monotonic = lambda: time.monotonic_ns() / 1e9
time.sleep = lambda d: None

node = S.build_native(mesh_schema(node_id=Const(0), addr=Const(0), table=DictOf(0, Int(1, 255), Int(1, 4095))), "self", {})
from circuitpython_nrf24l01.rf24_mesh import RF24Mesh
from circuitpython_nrf24l01.network.structs import FrameQueueFrag, RF24NetworkFrame
# a real, freshly configured master on the model radio
hw = node._rf24._spi.hw
hw.reg = [0] * 0x1E
hw.reg[0x1C], hw.reg[0x1D], hw.reg[3] = 0x3F, 5, 3
r = node._rf24
r._dyn_pl, r._features, r._addr_len, r._aa, r._open_pipes, r._config = 0x3F, 5, 5, 0, 0, 0
r._pl_len = [32] * 6
for i in range(6):
    hw.reg[0x11 + i] = 32
r._channel = r._rf_setup = r._retry_setup = 0
r._pipes = [bytearray(5), bytearray(5), 0, 0, 0, 0]
r._tx_address = bytearray(5)
r._pipe0_read_addr = None
node.address_suffix = bytearray([0xC3, 0x3C, 0x33, 0xCE, 0x3E, 0xE3]); node.address_prefix = bytearray([0xCC])
node.allow_multicast = True; node.ret_sys_msg = True; node._parenthood = True
node.tx_timeout, node.route_timeout, node.max_message_length = 25, 75, 144
node._frag_enabled, node._relay_enabled = True, False
node.queue = FrameQueueFrag(); node.frame_buf = RF24NetworkFrame()
node._begin(0)
hw.env_on, hw.budget = True, 0
specrt.set_oracle([0] * 64)          # every transmission is acknowledged at once (no ACK payloads)

def frame(frm, to, typ, res, msg=b""):
    return struct.pack("<HHHBB", frm, to, 1, typ, res) + msg

# 1) an address request for node ID 9 relayed by node 0o21 (two hops away: the reply waits for a NETWORK_ACK)
# 2) while the master waits, a frame with an invalid origin arrives: dropped, but it overwrites frame_buf
rx = [frame(0o21, 0, 195, 9), frame(0o7777, 0o7777, 0, 0)]
hw.rx_n = len(rx)
for i, p in enumerate(rx):
    hw.rx_pipe[i], hw.rx_len[i], hw.rx_data[i] = 1, len(p), p + bytes(32 - len(p))
try:
    node.update()    # reads the request; the allocation is done by the same call
    print("update() returned; dhcp_dict =", node.dhcp_dict)
except Exception:
    import traceback
    traceback.print_exc()
    print("update() RAISED on received frames (C15) while retrying the address reply from a clobbered frame_buf (C16)")
    sys.exit(1)
