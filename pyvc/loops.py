"""Inductive-invariant rule for loops that cannot be unrolled (waiting loops, scans of unknown
length).  Keyed by (function key, loop ordinal) in Contract.loops.

    entry:     prove  inv                                  (obligation <name>.loop<k>.entry)
    havoc:     everything the loop may modify is scrambled by LoopSpec.havoc (spec code that
               assigns oracle values) and the assigned locals get fresh values of their shape
    step:      assume inv and cond; run the body once; prove inv  (<name>.loop<k>.preserved)
               -- this path ends there, unless the body breaks / returns (those exits go on)
    exit:      assume inv and not cond; continue after the loop

The step path starts from an ARBITRARY state satisfying the invariant, so the proof covers every
number of iterations.

TERMINATION (LoopSpec.variant, `while` loops): a spec function V(int locals..., using
clock_now()) -> int.  The ghost clock is scrambled at the loop head (c_h: the last reading of an
arbitrary earlier turn) and the FIRST time.monotonic_ns() of the turn returns a strictly later value
(A-CLK-PROGRESS: time advances from one turn of a loop to the next; timer granularity ignored).
With V_h = V at the head, V_c = V after the condition held, V_e = V at the end of a turn that goes
round again, the obligation <name>.loop<k>.variant is

        V_e < V_h   and   V_c <= V_h   and   (V_c >= 0 or V_e >= 0)

Since state and clock at the end of turn i are those at the head of turn i+1, M(i) = V_h(i) is
strictly decreasing and >= 0 at every turn that completes: finitely many turns.  Loops without a
variant: termination argued (A-HW-LIVE / A-RX-FIN), not mechanised."""
import ast
import z3

from . import sym, ops
from .sym import SInt, SBool, Unsupported, b_not
from .core import PathEnd, BreakSig, ContinueSig, Ref, VBytes


def _assigned_names(st):
    names = []
    for n in ast.walk(st):
        if isinstance(n, ast.Name) and isinstance(n.ctx, ast.Store) and n.id not in names:
            names.append(n.id)
    return names


def _havoc_local(it, name, cur, tag):
    ctx = it.ctx
    ctx.fresh_n += 1
    label = "loop.%s.%s!%d" % (tag, name, ctx.fresh_n)
    if isinstance(cur, (bool, SBool)):
        return ctx.input_bool(label)
    if isinstance(cur, (int, SInt)):
        return ctx.input_int(label, -(1 << 62), (1 << 62) - 1)
    # other shapes (objects, bytes, None) are left to the LoopSpec.havoc function
    return cur


def _havoc_shaped_locals(it, spec, frame, tag):
    if not spec.locals:
        return
    from .driver import build_sym
    for name, node in spec.locals.items():
        it.ctx.fresh_n += 1
        frame.locals[name] = build_sym(it, node, "loop.%s.%s!%d" % (tag, name, it.ctx.fresh_n), {})


# A loop spec names the locals it talks about.  So that a RENAMED local does not turn a proof into
# UNDECIDED, a spec parameter that is not a local of the function is bound by its ROLE in the loop
# (harmless refactoring r09 renamed `rx_timeout`, `timeout` and `retries`):
#   deadline   the one local the loop never assigns that is compared with a time.monotonic[_ns]() reading
#   countdown  the one local the loop decrements by a constant and tests in its condition
#   arg:<m>    the one local passed as first argument to a call of method <m> inside the loop
# (A parameter with no role stays unbound: UNDECIDED.  Binding it to an arbitrary value was tried and rejected --
# the entry obligation then fails for values the code never produces: a false alarm on harmless refactoring r10.)
ROLE_OF = {"timeout": "deadline", "rx_timeout": "deadline", "end_timer": "deadline", "retries": "countdown",
           "request_count": "arg:_request_address"}


def _is_clock_call(n):
    return (isinstance(n, ast.Call) and isinstance(n.func, ast.Attribute) and n.func.attr in ("monotonic_ns", "monotonic")
            and isinstance(n.func.value, ast.Name) and n.func.value.id == "time")


def _role_candidates(st, role, local_names):
    assigned = set(_assigned_names(st))
    found = []
    if role == "deadline":
        for n in ast.walk(st):
            if isinstance(n, ast.Compare):
                sides = [n.left] + list(n.comparators)
                if any(_is_clock_call(x) for s_ in sides for x in ast.walk(s_)):
                    for s_ in sides:
                        if isinstance(s_, ast.Name) and s_.id in local_names and s_.id not in assigned and s_.id not in found:
                            found.append(s_.id)
    elif role.startswith("arg:"):
        m = role[4:]
        for n in ast.walk(st):
            if (isinstance(n, ast.Call) and isinstance(n.func, ast.Attribute) and n.func.attr == m and n.args
                    and isinstance(n.args[0], ast.Name) and n.args[0].id in local_names and n.args[0].id not in found):
                found.append(n.args[0].id)
    elif role == "countdown":
        tested = {x.id for x in ast.walk(st.test) if isinstance(x, ast.Name)}
        for n in ast.walk(st):
            if (isinstance(n, ast.AugAssign) and isinstance(n.op, ast.Sub) and isinstance(n.target, ast.Name)
                    and isinstance(n.value, ast.Constant) and n.target.id in tested and n.target.id in local_names
                    and n.target.id not in found):
                found.append(n.target.id)
    return found


def _aliases(it, st, frame, spec):
    """spec parameter -> actual local, for parameters that are not locals but have a role"""
    out = {}
    keys = [spec.inv, spec.variant, spec.entry, spec.frame] + list(spec.havoc or [])
    roles = dict(ROLE_OF)
    roles.update(getattr(spec, "roles", None) or {})
    for k in keys:
        if not k:
            continue
        for a in it.program.func(k).node.args.args:
            p = a.arg
            if p in frame.locals or p in out or p == "k_":
                continue
            if p not in roles:
                continue
            cand = _role_candidates(st, roles[p], set(frame.locals))
            if len(cand) == 1:
                out[p] = cand[0]
    return out


def _unbound_params(it, st, frame, spec, inv):
    """invariant parameters that are neither locals nor role-bound but are assigned inside the loop"""
    alias = getattr(frame, "spec_alias", None) or {}
    assigned = set(_assigned_names(st))
    in_test = {x.id for x in ast.walk(st.test) if isinstance(x, ast.Name)}
    out = set()
    for a in inv.node.args.args:
        p = a.arg
        # not when the loop CONDITION reads it: that would be an UnboundLocalError in the real code
        if p != "k_" and p not in frame.locals and p not in alias and p in assigned and p not in in_test:
            out.add(p)
    return out


def _call_spec(it, fi, frame, extra=None):
    env = dict(frame.locals)
    if extra:
        env.update(extra)
    alias = getattr(frame, "spec_alias", None) or {}
    params = [a.arg for a in fi.node.args.args]
    args = []
    for p in params:
        if p not in env and p in alias and alias[p] in env:
            args.append(env[alias[p]])
            continue
        if p not in env:
            raise Unsupported("loop spec %s wants unknown local %s" % (fi.key, p))
        args.append(env[p])
    return it.call_function(fi, args, {})


def _name(it, frame, st):
    key = it.loop_key(st, frame)
    return "%s.loop%d" % (key[0], key[1])


def _locs(obj):
    """the mutable locations of one heap object: key -> value"""
    from .core import HObj, HList, HByteArray, HDict, HSet
    if isinstance(obj, HObj):
        return dict(obj.fields)
    if isinstance(obj, HList):
        d = {("i", i): v for i, v in enumerate(obj.items)}
        d["#len"] = len(obj.items)
        return d
    if isinstance(obj, HByteArray):
        return {"term": obj.term}
    if isinstance(obj, HDict):
        d = {("k", i): v for i, v in enumerate(obj.keys)}
        d.update({("v", i): v for i, v in enumerate(obj.vals)})
        d["#len"] = len(obj.keys)
        return d
    if isinstance(obj, HSet):
        d = {("i", i): v for i, v in enumerate(obj.items)}
        d["#len"] = len(obj.items)
        return d
    if hasattr(obj, "term"):
        return {"term": obj.term}
    return {}


def _snapshot(ctx):
    return {oid: _locs(obj) for oid, obj in ctx.heap.items()}


def _same(a, b):
    if a is b:
        return True
    if isinstance(a, (bool, int, str, bytes, type(None))) and isinstance(b, (bool, int, str, bytes, type(None))):
        return type(a) is type(b) and a == b
    from .core import Ref
    if isinstance(a, Ref) and isinstance(b, Ref):
        return a.oid == b.oid
    return False


def _havoc_footprint(ctx, snap0):
    """locations the havoc functions assigned (compared by identity with the snapshot taken before)"""
    foot = set()
    for oid, obj in ctx.heap.items():
        before = snap0.get(oid)
        if before is None:
            continue
        now = _locs(obj)
        for k in set(before) | set(now):
            if k not in before or k not in now or not _same(before[k], now[k]):
                foot.add((oid, k))
    return foot


def _footprint_check(it, foot, snap1, oname, tag):
    """COMPLETENESS of the havoc: every heap location that existed at the loop head and that the
    havoc functions did NOT assign must hold the same value after the body (proved, location by
    location).  Without this a body write to a location that is neither havocked nor listed in the
    frame view would make the arbitrary-iteration state too specific (a vacuous step)."""
    ctx = it.ctx
    for oid, before in snap1.items():
        obj = ctx.heap.get(oid)
        if obj is None:
            continue
        now = _locs(obj)
        if (oid, None) in foot:
            continue
        for k in set(before) | set(now):
            if (oid, k) in foot:
                continue
            if k in before and k in now and _same(before[k], now[k]):
                continue
            what = "%s.%s" % (type(obj).__name__ if not hasattr(obj, "cls") else obj.cls.key, k)
            if k not in before or k not in now:
                ctx.oblige(oname + ".footprint", False, info={"loop": tag, "location": what, "why": "location appears/disappears in the body but is not havocked"})
                continue
            try:
                eq = ops.values_eq(it, before[k], now[k])
            except Exception:
                eq = False
            ctx.oblige(oname + ".footprint", eq, info={"loop": tag, "location": what})


def _frame_check(it, spec, frame, fr0, oname, tag):
    """the havoc footprint is sound only if the body leaves everything outside it unchanged"""
    if fr0 is None:
        return
    fr1 = _call_spec(it, it.program.func(spec.frame), frame)
    it.ctx.oblige(oname + ".frame", ops.values_eq(it, fr0, fr1), info={"loop": tag})


def _havoc_clock(it, tag):
    """the last clock reading of an arbitrary earlier turn: anything not before the reading at entry"""
    ctx = it.ctx
    ctx.fresh_n += 1
    v = ctx.input_int("loop.%s.clock!%d" % (tag, ctx.fresh_n), 0, 1 << 61)
    if ctx.clock is not None:
        ctx.assume(sym.cmp(">=", v, ctx.clock))
    ctx.clock = v
    ctx.clock_strict = True      # the next reading belongs to a later turn: strictly later (A-CLK-PROGRESS)


def _generalise_variant_params(it, st, frame, spec, tag):
    """int locals the variant reads and the loop never assigns (a deadline computed before the loop)
    are replaced by a fresh value of the same range: forgetting HOW they were computed (a 64-bit
    product) is sound and keeps the termination VCs linear"""
    ctx = it.ctx
    assigned = _assigned_names(st)
    alias = getattr(frame, "spec_alias", None) or {}
    for a in it.program.func(spec.variant).node.args.args:
        name = a.arg if a.arg in frame.locals else alias.get(a.arg, a.arg)
        cur = frame.locals.get(name)
        if name in assigned:
            continue
        if isinstance(cur, sym.SFloat) and isinstance(cur.ns, SInt):      # a deadline in float seconds
            lo, hi = sym.rng(cur.ns)
            ctx.fresh_n += 1
            frame.locals[name] = sym.SFloat(cur.nonneg, ns=ctx.input_int("loop.%s.%s.any!%d" % (tag, a.arg, ctx.fresh_n), lo, hi))
            continue
        if not isinstance(cur, SInt):
            continue
        lo, hi = sym.rng(cur)
        ctx.fresh_n += 1
        frame.locals[name] = ctx.input_int("loop.%s.%s.any!%d" % (tag, a.arg, ctx.fresh_n), lo, hi)


def _variant_value(it, spec, frame):
    v = _call_spec(it, it.program.func(spec.variant), frame)
    if isinstance(v, bool) or not isinstance(v, (int, SInt)):
        raise Unsupported("loop variant must be an int")
    return v


def _variant_check(it, oname, tag, v_h, v_c, v_e):
    dec = sym.cmp("<", v_e, v_h)
    mono = sym.cmp("<=", v_c, v_h)
    low = sym.b_or(sym.cmp(">=", v_c, 0), sym.cmp(">=", v_e, 0))
    it.ctx.oblige(oname + ".variant", sym.b_and(dec, mono, low), info={"loop": tag, "rule": "V_e < V_h, V_c <= V_h, V_c >= 0 or V_e >= 0"})


def run_while_with_invariant(it, st, frame, spec):
    ctx = it.ctx
    prog = it.program
    inv = prog.func(spec.inv)
    frame.spec_alias = _aliases(it, st, frame, spec)
    tag = _name(it, frame, st)
    oname = ctx.ghost.get("contract_name", "?") + "." + tag
    # contracts apply to the callee code only: suspend nothing -- spec code always runs inline
    unbound = _unbound_params(it, st, frame, spec, inv)
    if unbound:
        # a local the invariant names does not exist yet at the loop head but the loop assigns it (a sentinel
        # initialisation that a refactoring removed).  Its head value is immaterial -- Python would raise
        # UnboundLocalError if the body read it before assigning it (definite assignment is ASSUMED here) -- so
        # the invariant only has to hold at entry for SOME value: tried for a few candidates, disjunctively.
        alts = []
        for cand in (-2, -1, 0, 1):
            alts.append(ops.truthy(it, _call_spec(it, inv, frame, {p: cand for p in unbound})))
        ctx.oblige(oname + ".entry", sym.b_or(*alts), info={"loop": tag, "unbound_locals": sorted(unbound)})
        for p in unbound:
            ctx.fresh_n += 1
            frame.locals[p] = ctx.input_int("loop.%s.%s.unbound!%d" % (tag, p, ctx.fresh_n), -(1 << 62), (1 << 62) - 1)
    else:
        ctx.oblige(oname + ".entry", ops.truthy(it, _call_spec(it, inv, frame)), info={"loop": tag})
    if spec.entry:
        ctx.oblige(oname + ".at_entry", ops.truthy(it, _call_spec(it, prog.func(spec.entry), frame)), info={"loop": tag})
    if spec.variant:
        _generalise_variant_params(it, st, frame, spec, tag)
    # havoc
    ctx.write_log = set()
    oid0 = ctx.next_oid
    if spec.havoc:
        for hk in spec.havoc:
            _call_spec(it, prog.func(hk), frame)
    foot = ctx.write_log
    ctx.write_log = None
    for fresh_oid in range(oid0, ctx.next_oid):
        foot.add((fresh_oid, None))       # objects the havoc functions created are theirs
    for n in _assigned_names(st):
        if n in frame.locals:
            frame.locals[n] = _havoc_local(it, n, frame.locals[n], tag)
    _havoc_shaped_locals(it, spec, frame, tag)
    if spec.variant:
        _havoc_clock(it, tag)
    ctx.assume(ops.truthy(it, _call_spec(it, inv, frame)))
    ctx.fresh_n += 1
    mode = SBool(z3.Bool("loopmode!%d" % ctx.fresh_n))
    step = ctx.branch(mode)
    if not step:
        ctx.clock_strict = False     # exit path: possibly no turn at all since the reading at entry
    fr0 = _call_spec(it, prog.func(spec.frame), frame) if (spec.frame and step) else None
    snap1 = _snapshot(ctx) if step else None
    v_h = _variant_value(it, spec, frame) if (spec.variant and step) else None
    c = ops.truthy(it, it.eval(st.test, frame))
    if step:
        ctx.assume(c)
        v_c = _variant_value(it, spec, frame) if spec.variant else None
        try:
            it.exec_block(st.body, frame)
        except BreakSig:
            # a break leaves the loop: execution goes on after it with the ACTUAL state.  Frame and havoc
            # footprint only have to cover turns that go round again (they make the next head state), so
            # they are not demanded of a turn that leaves (harmless refactoring r10 moved a loop's exit
            # test from the condition into the body: `while True: if done(): break`)
            return
        except ContinueSig:
            pass
        _frame_check(it, spec, frame, fr0, oname, tag)
        _footprint_check(it, foot, snap1, oname, tag)
        ctx.oblige(oname + ".preserved", ops.truthy(it, _call_spec(it, inv, frame)), info={"loop": tag})
        if spec.variant:
            _variant_check(it, oname, tag, v_h, v_c, _variant_value(it, spec, frame))
        ctx.notes.append("loop-step " + tag)
        raise PathEnd()
    ctx.assume(b_not(c) if not isinstance(c, bool) else (not c))
    it.exec_block(st.orelse, frame)


def run_for_with_invariant(it, st, frame, spec):
    """`for x in range(a, b)` with an invariant over the number k_ of completed turns"""
    from .interp import RangeVal
    ctx = it.ctx
    prog = it.program
    inv = prog.func(spec.inv)
    tag = _name(it, frame, st)
    oname = ctx.ghost.get("contract_name", "?") + "." + tag
    rv = it.eval(st.iter, frame)
    if isinstance(rv, Ref):
        return run_foreach_with_invariant(it, st, frame, spec, rv)
    if not isinstance(rv, RangeVal) or rv.step != 1:
        raise Unsupported("for-loop invariant needs range() with step 1")
    n = sym.imax(0, sym.sub(rv.stop, rv.start))
    ctx.oblige(oname + ".entry", ops.truthy(it, _call_spec(it, inv, frame, {"k_": 0})), info={"loop": tag})
    ctx.write_log = set()
    oid0 = ctx.next_oid
    if spec.havoc:
        for hk in spec.havoc:
            _call_spec(it, prog.func(hk), frame)
    foot = ctx.write_log
    ctx.write_log = None
    for fresh_oid in range(oid0, ctx.next_oid):
        foot.add((fresh_oid, None))       # objects the havoc functions created are theirs
    for nm in _assigned_names(st):
        if nm in frame.locals:
            frame.locals[nm] = _havoc_local(it, nm, frame.locals[nm], tag)
    _havoc_shaped_locals(it, spec, frame, tag)
    ctx.fresh_n += 1
    lo, hi = sym.rng(n)
    k = ctx.input_int("loop.%s.k!%d" % (tag, ctx.fresh_n), 0, max(hi, 0))
    ctx.assume(sym.cmp("<=", k, n))
    ctx.assume(ops.truthy(it, _call_spec(it, inv, frame, {"k_": k})))
    ctx.fresh_n += 1
    mode = SBool(z3.Bool("loopmode!%d" % ctx.fresh_n))
    if ctx.branch(mode):
        ctx.assume(sym.cmp("<", k, n))
        it.assign(st.target, sym.add(rv.start, k), frame)
        fr0 = _call_spec(it, prog.func(spec.frame), frame) if spec.frame else None
        snap1 = _snapshot(ctx)
        try:
            it.exec_block(st.body, frame)
        except BreakSig:
            return      # see run_while_with_invariant: no frame/footprint demand on a turn that leaves
        except ContinueSig:
            pass
        _frame_check(it, spec, frame, fr0, oname, tag)
        _footprint_check(it, foot, snap1, oname, tag)
        ctx.oblige(oname + ".preserved", ops.truthy(it, _call_spec(it, inv, frame, {"k_": sym.add(k, 1)})), info={"loop": tag})
        ctx.notes.append("loop-step " + tag)
        raise PathEnd()
    ctx.assume(sym.cmp("==", k, n))
    # after a completed loop the target keeps its last value (if the loop ran at all)
    if ctx.branch(sym.cmp(">", n, 0)):
        it.assign(st.target, sym.sub(sym.add(rv.start, n), 1), frame)
    it.exec_block(st.orelse, frame)


def run_foreach_with_invariant(it, st, frame, spec, coll):
    """`for x in <name>` over a set / list whose elements are interchangeable as far as the body
    can tell: the body is proved once for an ARBITRARY element from an arbitrary state satisfying
    the invariant, which covers every size and every iteration order.  Sound only if the body
    neither reads nor changes the collection -- checked syntactically (the iterable must be a
    plain local name that the body does not mention) -- and the invariant does not mention it."""
    from .core import HSet, HList
    ctx = it.ctx
    prog = it.program
    inv = prog.func(spec.inv)
    tag = _name(it, frame, st)
    oname = ctx.ghost.get("contract_name", "?") + "." + tag
    if not isinstance(st.iter, ast.Name):
        raise Unsupported("for-each invariant needs a plain local name as the iterable")
    cname = st.iter.id
    for sub in st.body:
        for n in ast.walk(sub):
            if isinstance(n, ast.Name) and n.id == cname:
                raise Unsupported("for-each invariant: the body mentions the collection %s" % cname)
    if cname in [a.arg for a in inv.node.args.args]:
        raise Unsupported("for-each invariant: the invariant mentions the collection %s" % cname)
    o = ctx.obj(coll)
    if not isinstance(o, (HSet, HList)):
        raise Unsupported("for-each invariant over %s" % type(o).__name__)
    items = list(o.items)
    ctx.oblige(oname + ".entry", ops.truthy(it, _call_spec(it, inv, frame)), info={"loop": tag})
    ctx.write_log = set()
    oid0 = ctx.next_oid
    if spec.havoc:
        for hk in spec.havoc:
            _call_spec(it, prog.func(hk), frame)
    foot = ctx.write_log
    ctx.write_log = None
    for fresh_oid in range(oid0, ctx.next_oid):
        foot.add((fresh_oid, None))       # objects the havoc functions created are theirs
    tnames = [n.id for n in ast.walk(st.target) if isinstance(n, ast.Name)]
    for nm in _assigned_names(st):
        if nm in frame.locals and nm not in tnames:
            frame.locals[nm] = _havoc_local(it, nm, frame.locals[nm], tag)
    _havoc_shaped_locals(it, spec, frame, tag)
    ctx.assume(ops.truthy(it, _call_spec(it, inv, frame)))
    ctx.fresh_n += 1
    mode = SBool(z3.Bool("loopmode!%d" % ctx.fresh_n))
    if ctx.branch(mode):
        if not items:
            raise PathEnd()
        pick = items[-1]
        for cand in items[:-1]:
            ctx.fresh_n += 1
            if ctx.branch(SBool(z3.Bool("pick!%d" % ctx.fresh_n))):
                pick = cand
                break
        it.assign(st.target, pick, frame)
        fr0 = _call_spec(it, prog.func(spec.frame), frame) if spec.frame else None
        snap1 = _snapshot(ctx)
        try:
            it.exec_block(st.body, frame)
        except BreakSig:
            return      # see run_while_with_invariant: no frame/footprint demand on a turn that leaves
        except ContinueSig:
            pass
        _frame_check(it, spec, frame, fr0, oname, tag)
        _footprint_check(it, foot, snap1, oname, tag)
        ctx.oblige(oname + ".preserved", ops.truthy(it, _call_spec(it, inv, frame)), info={"loop": tag})
        ctx.notes.append("loop-step " + tag)
        raise PathEnd()
    # exit: the target keeps whatever it was bound to last (unknown): drop it if it was unbound before
    it.exec_block(st.orelse, frame)
