"""C04 -- tree routing connects all 781 addresses; pipe addresses never collide.

Code obligations tie _begin / _logi_2_phys / _pipe_address / _lvl_2_addr to the digit-wise
reference functions of spec/net_ref.py; the lemmas are then pure statements over those reference
functions, for ALL valid (source, destination) pairs, all (node, pipe) pairs and SYMBOLIC
pairwise-distinct prefix/suffix bytes (not sampled ones)."""
from pyvc.cdef import Contract, Lemma
from pyvc.schema import Int, Bool, Const, Bytes, ByteArray, Obj, OneOf
from pyvc.specrt import implies, ite, is_fresh
from spec.net_ref import (digit, level, valid_node, valid_address, parent, top_digit, is_descendant, next_hop, pipe_to,
                          level_addr, pipe_address, distinct_bytes, pow8)
from spec.rf24_state import rf24_schema


# ------------------------------------------------------------------ code-side references

def addr_fields_ok(self):
    """the address-derived fields of a node are the reference functions of its address"""
    a = self._addr
    lv = level(a)
    return (valid_node(a)
            and self._mask == pow8(lv) - 1
            and self._mask_inv == (0xFFFF * pow8(lv)) % 0x10000
            and self._parent == parent(a)
            and self._parent_pipe == top_digit(a))


def ref_lvl_2_addr(level):
    return level_addr(level)


def ref_pipe_address_m(self, node_addr, pipe_number):
    return pipe_address(self.address_prefix[0], self.address_suffix, node_addr, pipe_number, bool(self.allow_multicast))


def req_pipe_address(self, node_addr, pipe_number):
    """node addresses and the three reserved level addresses (what multicast() passes)"""
    return ((valid_address(node_addr) or (node_addr == 0o10000 and pipe_number == 0 and bool(self.allow_multicast)))
            and 0 <= pipe_number and pipe_number <= 5)


def ens_fresh_result(result):
    return is_fresh(result)


def view_addr_cfg(self):
    return (("address_prefix", bytes(self.address_prefix)), ("address_suffix", bytes(self.address_suffix)),
            ("allow_multicast", self.allow_multicast))


def req_logi(self, to_node, send_type):
    return addr_fields_ok(self) and valid_node(to_node) and (to_node != self._addr or send_type > 1)


def ref_logi_2_phys(self, to_node, send_type):
    """TX_NORMAL(0)/TX_ROUTED(1): next hop on the tree path and the pipe it is reached on;
    TX_PHYSICAL(2)/TX_LOGICAL(3)/TX_MULTICAST(4): straight to pipe 0 of the given node"""
    me = self._addr
    if send_type > 1:
        return (to_node, 0, True)
    return (next_hop(me, to_node), pipe_to(me, to_node), False)


def view_route_fields(self):
    return (("_addr", self._addr), ("_mask", self._mask), ("_mask_inv", self._mask_inv),
            ("_parent", self._parent), ("_parent_pipe", self._parent_pipe))


def req_begin(self, n_addr):
    return valid_node(n_addr)


def ens_begin_fields(self, n_addr, exc):
    return exc is None and self._addr == n_addr and addr_fields_ok(self) and self._net_lvl == level(n_addr)


# ------------------------------------------------------------------ lemmas (pure)

def req_pair(src, dst):
    return valid_node(src) and valid_node(dst) and src != dst


def _walk(src, dst, hops):
    cur = src
    for _ in range(hops):
        cur = ite(cur == dst, cur, next_hop(cur, dst))
    return cur


def lemma_reach8(src, dst):
    """iterating each node's own next-hop choice reaches dst within 8 hops"""
    return _walk(src, dst, 8) == dst


def lemma_tight7(src, dst):
    """(vacuity guard, must be refutable) 7 hops do NOT suffice for every pair"""
    return _walk(src, dst, 7) == dst


def lemma_tree_path(src, dst):
    """every hop is the sender's parent or one of its direct children, is a valid node, and lies
    on the unique tree path: down iff dst is below the sender, else up; the distance to dst
    (levels up to the common ancestor + levels down) decreases by exactly one"""
    nh = next_hop(src, dst)
    down = is_descendant(src, dst)
    is_child = parent(nh) == src and nh != src and level(nh) == level(src) + 1
    is_parent = nh == parent(src) and level(src) > 0
    toward = implies(down, is_child and (nh == dst or is_descendant(nh, dst)))
    return (valid_node(nh) and (is_child or is_parent) and toward and implies(not down, is_parent)
            and 1 <= pipe_to(src, dst) and pipe_to(src, dst) <= 5)


def lemma_up_then_down(src, dst):
    """once the path turns down it never goes up again (up to the common ancestor, then down)"""
    nh = next_hop(src, dst)
    return implies(is_descendant(src, dst) and nh != dst, is_descendant(nh, dst))


def req_two_pipes(prefix, suffix, n1, p1, n2, p2):
    return (valid_node(n1) and valid_node(n2) and 0 <= p1 and p1 <= 5 and 0 <= p2 and p2 <= 5
            and distinct_bytes(prefix, suffix))


def lemma_unique(prefix, suffix, n1, p1, n2, p2, mc1, mc2):
    """a unicast pipe address (pipes 1..5, or any pipe with multicast off, or the master's) is
    listened on by no other (node, pipe) of the whole address space"""
    uni1 = (not mc1) or p1 != 0 or n1 == 0
    same = pipe_address(prefix, suffix, n1, p1, mc1) == pipe_address(prefix, suffix, n2, p2, mc2)
    return implies(uni1 and same, n1 == n2 and p1 == p2)


def lemma_listen(prefix, suffix, n1, p1, n2, p2, mc1, mc2):
    """sender and receiver agree on a routing pipe's address whatever their multicast settings"""
    return implies(p1 >= 1, pipe_address(prefix, suffix, n1, p1, mc1) == pipe_address(prefix, suffix, n1, p1, mc2))


def lemma_p1to5(prefix, suffix, n1, p1, n2, p2, mc1, mc2):
    """pipes 1-5 of one node differ only in their first byte (the radio shares bytes 1..4)"""
    a = pipe_address(prefix, suffix, n1, p1, mc1)
    b = pipe_address(prefix, suffix, n1, p2, mc1)
    return implies(p1 >= 1 and p2 >= 1, a[1:] == b[1:] and implies(p1 != p2, a[0] != b[0]))


def lemma_level(prefix, suffix, n1, p1, n2, p2, mc1, mc2):
    """the pipe-0 address of a level is shared by exactly the nodes of that level, is the address
    a multicast to that level is transmitted to, and is never a unicast address"""
    a = pipe_address(prefix, suffix, n1, 0, True)
    b = pipe_address(prefix, suffix, n2, 0, True)
    to_level = pipe_address(prefix, suffix, level_addr(level(n1)), 0, True)
    other = pipe_address(prefix, suffix, n2, p2, mc2)
    uni2 = (not mc2) or p2 != 0 or n2 == 0
    return ((a == b) == (level(n1) == level(n2))
            and a == to_level
            and implies(uni2 and n1 != 0, a != other))


def lemma_nomc(prefix, suffix, n1, p1, n2, p2, mc1, mc2):
    """with allow_multicast off a node does not listen on any shared level address"""
    a = pipe_address(prefix, suffix, n1, p1, False)
    lv = pipe_address(prefix, suffix, n2, 0, True)
    return implies(n2 != 0, a != lv)


# ------------------------------------------------------------------ contracts

NET = "mixins:NetworkMixin"
R = "spec.c04:"
PA_STATE = Obj(NET, {"allow_multicast": OneOf(Bool(), Int(0, 1)), "address_prefix": ByteArray(1, 1),
                     "address_suffix": ByteArray(6, 6)})
ROUTE_STATE = Obj(NET, {"_addr": Int(0, 4095), "_mask": Int(0, 0xFFFF), "_mask_inv": Int(0, 0xFFFF),
                        "_parent": Int(0, 4095), "_parent_pipe": Int(0, 7)})


def begin_state():
    return Obj("rf24_network:RF24Network", {
        "_rf24": rf24_schema(),
        "_addr": Int(0, 4095), "_mask": Int(0, 0xFFFF), "_mask_inv": Int(0, 0xFFFF), "_net_lvl": Int(0, 4),
        "_parent": Int(0, 4095), "_parent_pipe": Int(0, 7),
        "allow_multicast": Bool(), "address_prefix": ByteArray(1, 1), "address_suffix": ByteArray(6, 6)})


RADIO_POLICY = {
    "rf24:RF24.listen.setter": "ref:spec.c08:ref_listen_set",
    "rf24:RF24.auto_ack.setter": "ref:spec.c03:ref_auto_ack_set",
    "rf24:RF24.set_auto_retries": "ref:spec.c03:ref_set_auto_retries",
    "rf24:RF24.open_rx_pipe": "ref:spec.c03:ref_open_rx_pipe",
    "rf24:RF24.open_tx_pipe": "ref:spec.c03:ref_open_tx_pipe",
    "mixins:NetworkMixin._pipe_address": "ref:spec.c04:ref_pipe_address_m",
    "mixins:_lvl_2_addr": "ref:spec.c04:ref_lvl_2_addr",
}

CONTRACTS = [
    Contract("C04._lvl_2_addr", "mixins:_lvl_2_addr", {"level": Int(0, 5)}, refines=R + "ref_lvl_2_addr", props=["C04", "C14"]),
    Contract("C04._pipe_address", "mixins:NetworkMixin._pipe_address",
             {"self": PA_STATE, "node_addr": Int(0, 4096), "pipe_number": Int(0, 5)},
             requires=[R + "req_pipe_address"], refines=R + "ref_pipe_address_m", view=R + "view_addr_cfg",
             ensures=[("fresh", R + "ens_fresh_result")], props=["C04"]),
    Contract("C04._logi_2_phys", "mixins:NetworkMixin._logi_2_phys",
             {"self": ROUTE_STATE, "to_node": Int(0, 4095), "send_type": Int(0, 4)},
             requires=[R + "req_logi"], refines=R + "ref_logi_2_phys", view=R + "view_route_fields", props=["C04"]),
    Contract("C04._begin.fields", "mixins:NetworkMixin._begin", {"self": begin_state(), "n_addr": Int(0, 4095)},
             requires=[R + "req_begin"], ensures=[("fields", R + "ens_begin_fields")], raises=(),
             policy=RADIO_POLICY, props=["C04"]),
]

PAIR = {"src": Int(0, 4095), "dst": Int(0, 4095)}
TWO = {"prefix": Int(0, 255), "suffix": Bytes(6, 6), "n1": Int(0, 4095), "p1": Int(0, 5),
       "n2": Int(0, 4095), "p2": Int(0, 5), "mc1": Bool(), "mc2": Bool()}
LEMMAS = [
    Lemma("C04.lemma.reach8", PAIR, R + "lemma_reach8", requires=[R + "req_pair"], props=["C04"]),
    Lemma("C04.lemma.tight7", PAIR, R + "lemma_tight7", requires=[R + "req_pair"], props=["C04"], expect_sat=True),
    Lemma("C04.lemma.tree_path", PAIR, R + "lemma_tree_path", requires=[R + "req_pair"], props=["C04"]),
    Lemma("C04.lemma.up_then_down", PAIR, R + "lemma_up_then_down", requires=[R + "req_pair"], props=["C04"]),
    Lemma("C04.lemma.unique", TWO, R + "lemma_unique", requires=[R + "req_two_pipes"], props=["C04"]),
    Lemma("C04.lemma.listen", TWO, R + "lemma_listen", requires=[R + "req_two_pipes"], props=["C04"]),
    Lemma("C04.lemma.p1to5", TWO, R + "lemma_p1to5", requires=[R + "req_two_pipes"], props=["C04"]),
    Lemma("C04.lemma.level", TWO, R + "lemma_level", requires=[R + "req_two_pipes"], props=["C04", "C14"]),
    Lemma("C04.lemma.nomc", TWO, R + "lemma_nomc", requires=[R + "req_two_pipes"], props=["C04", "C14"]),
]
