"""C09 -- `with` restores an object's complete radio configuration.

__enter__ is proved from ANY register file (whatever other objects sharing the radio did): it
leaves every configuration register equal to the object's shadow attributes, i.e. establishes
Inv(self, hw).  Between two of its own blocks an object's shadows cannot change (no method of
another object can reach them: A-SEP, and every contract's view covers only `self` + hw), and
inside a block every call preserves Inv (C03/C08/C10).  By induction over the block sequence the
registers at re-entry equal the registers at the end of the object's previous block except
PWR_UP -- for any number and interleaving of objects."""
from pyvc.cdef import Contract
from pyvc.schema import Int, Bool, Const, Bytes, ByteArray, OneOf, Obj
from pyvc.specrt import implies, ite, same_object
from spec.rf24_state import rf24_schema, inv, view_cfg, hw_ranges
from spec.c03 import PRIMS


def shadows_wf(self):
    """what an object's shadows look like when it last left an Inv state (datasheet ranges);
    the radio itself is arbitrary"""
    return (hw_ranges(self._spi.hw)
            and self._config <= 0x7F and self._aa <= 0x3F and self._open_pipes <= 0x3F
            and self._dyn_pl <= 0x3F and self._features <= 7 and self._channel <= 125
            and (self._rf_setup & 0x40) == 0
            and same_object(self._ce_pin.hw, self._spi.hw))


def ref_enter(self):
    hw = self._spi.hw
    r = hw.reg
    hw.set_ce(False)
    self._config = self._config | 2          # powered up
    r[0] = self._config
    r[6] = self._rf_setup
    r[2] = self._open_pipes
    r[0x1C] = self._dyn_pl
    r[1] = self._aa
    r[0x1D] = self._features
    r[4] = self._retry_setup
    for k in range(5):
        hw.addr0[k] = self._pipes[0][k]
        hw.addr1[k] = self._pipes[1][k]
        hw.txaddr[k] = self._tx_address[k]
    for i in range(2, 6):
        r[0x0A + i] = self._pipes[i]
    for i in range(6):
        r[0x11 + i] = self._pl_len[i]
    r[5] = self._channel
    r[8] = r[8] & 0x0F                       # datasheet: writing RF_CH resets PLOS_CNT
    r[3] = self._addr_len - 2
    return self


def ens_enter_inv(self, result, exc):
    """every configuration register is back in the state this object last established"""
    return exc is None and inv(self) and same_object(result, self)


def ref_exit(self):
    hw = self._spi.hw
    hw.set_ce(False)
    self._config = self._config & 0x7D       # PWR_UP = 0
    hw.reg[0] = self._config
    return False


def ens_exit_down(self, exc):
    hw = self._spi.hw
    return exc is None and not hw.ce and (hw.reg[0] & 2) == 0


def req_mixin(self):
    return shadows_wf(self._rf24)


def req_mixin_inv(self):
    return inv(self._rf24)


def ref_mixin_enter(self):
    ref_enter(self._rf24)
    return self


def ref_mixin_exit(self):
    return ref_exit(self._rf24)


def view_mixin(self):
    return view_cfg(self._rf24)


R = "spec.c09:"
ST = "spec.rf24_state:"
POL = dict(PRIMS)
POL["rf24:RF24.set_payload_length"] = "ref:spec.c03:ref_set_payload_length"

CONTRACTS = [
    Contract("C09.enter", "rf24:RF24.__enter__", {"self": rf24_schema()}, requires=[R + "shadows_wf"],
             refines=R + "ref_enter", view=ST + "view_cfg", ensures=[("inv", R + "ens_enter_inv")], policy=POL, props=["C09"]),
    Contract("C09.exit", "rf24:RF24.__exit__", {"self": rf24_schema()}, requires=[ST + "inv"],
             refines=R + "ref_exit", view=ST + "view_cfg", ensures=[("inv", ST + "post_inv"), ("down", R + "ens_exit_down")],
             policy=POL, props=["C09"]),
    Contract("C09.mixin.enter", "mixins:RadioMixin.__enter__", {"self": Obj("mixins:RadioMixin", {"_rf24": rf24_schema()})},
             requires=[R + "req_mixin"], refines=R + "ref_mixin_enter", view=R + "view_mixin",
             policy={"rf24:RF24.__enter__": "ref:" + R + "ref_enter|pre:" + R + "shadows_wf"}, props=["C09"]),
    Contract("C09.mixin.exit", "mixins:RadioMixin.__exit__", {"self": Obj("mixins:RadioMixin", {"_rf24": rf24_schema()})},
             requires=[R + "req_mixin_inv"], refines=R + "ref_mixin_exit", view=R + "view_mixin",
             policy={"rf24:RF24.__exit__": "ref:" + R + "ref_exit|pre:spec.rf24_state:inv"}, props=["C09"]),
]


# ---- RF24.__init__ establishes Inv (plus variant, which is what A-HW models)

def req_init(self, spi, csn, ce_pin):
    return hw_ranges(spi.hw) and same_object(ce_pin.hw, spi.hw)


def ens_init_inv(self, exc):
    hw = self._spi.hw
    return (exc is None and inv(self) and not hw.ce and (hw.reg[0] & 2) == 0 and hw.rx_n == 0 and hw.tx_n == 0
            and (hw.reg[7] & 0x70) == 0 and self._pipe0_read_addr is None and self._is_plus_variant)


from spec.rf24_state import radio_schema  # noqa: E402

INIT_POL = dict(POL)
INIT_POL.update({"rf24:RF24.__enter__": "ref:" + R + "ref_enter", "rf24:RF24.__exit__": "ref:" + R + "ref_exit",
                 "rf24:RF24.flush_rx": "ref:spec.c10:ref_flush_rx", "rf24:RF24.flush_tx": "ref:spec.c10:ref_flush_tx",
                 "rf24:RF24.clear_status_flags": "ref:spec.c10:ref_clear_status_flags"})
CONTRACTS.append(
    Contract("C09.init", "rf24:RF24.__init__",
             {"self": Obj("rf24:RF24", {}), "spi": Obj("spec.hw:SpiStub", {"hw": radio_schema()}), "csn": Const(None),
              "ce_pin": Obj("spec.hw:Pin", {"hw": radio_schema()})},
             requires=[R + "req_init"], ensures=[("inv", R + "ens_init_inv")], raises=(), policy=INIT_POL, props=["C09", "C03"]))


# ---- C09.lemma.restore, mechanised over the PROVED reference functions -------------------------------
# __exit__ == ref_exit (C09.exit) and __enter__ == ref_enter (C09.enter, from ANY register file).  Between an
# object's blocks anything may happen to the radio -- other objects' whole blocks, any number of them: the
# register file, the three address registers, CE and the FIFOs become ARBITRARY legal values (every call of
# every object keeps the datasheet ranges: C03.f.state / .inv) -- while this object's shadows stay untouched
# (no method reaches another object's fields).  Statement: after re-entry EVERY configuration register the
# property lists holds what it held when the object left its previous block, PWR_UP apart (cleared by
# __exit__, set by __enter__).  Nothing is enumerated: one foreign step of arbitrary effect covers 2, 3 or
# any number of objects in any interleaving.  `needs_every_register` is the vacuity guard: with one
# register left out of the foreign step's range assumption the statement must stay provable, with one
# register left out of the COMPARISON it is trivially weaker -- so the guard instead drops Inv and must be
# refutable.

from pyvc.cdef import Lemma  # noqa: E402
from pyvc.schema import Int, Bool, ByteArray, ListOf  # noqa: E402


def cfg_regs(hw):
    """the configuration the property names: CONFIG (CRC, IRQ mask, PRIM_RX; PWR_UP masked), EN_AA, EN_RXADDR,
    SETUP_AW, SETUP_RETR, RF_CH, RF_SETUP, all pipe addresses, TX address, payload lengths, DYNPD, FEATURE"""
    r = hw.reg
    return (r[0] & 0x7D, r[1], r[2], r[3], r[4], r[5], r[6], bytes(hw.addr0), bytes(hw.addr1),
            r[0x0C], r[0x0D], r[0x0E], r[0x0F], bytes(hw.txaddr),
            r[0x11], r[0x12], r[0x13], r[0x14], r[0x15], r[0x16], r[0x1C], r[0x1D])


def foreign_ok(regs2):
    """what other objects can leave behind: any values within the datasheet ranges"""
    return (regs2[0] <= 0x7F and regs2[1] <= 0x3F and regs2[2] <= 0x3F and regs2[3] <= 3 and regs2[5] <= 0x7F
            and (regs2[6] & 0x40) == 0 and (regs2[7] & 0x8F) == 0
            and regs2[0x11] <= 0x3F and regs2[0x12] <= 0x3F and regs2[0x13] <= 0x3F
            and regs2[0x14] <= 0x3F and regs2[0x15] <= 0x3F and regs2[0x16] <= 0x3F
            and (regs2[0x17] & 0xBF) == 0 and regs2[0x1C] <= 0x3F and regs2[0x1D] <= 7)


def req_restore(a, regs2, a0, a1, tx, ce2):
    return inv(a) and foreign_ok(regs2)


def req_restore_no_inv(a, regs2, a0, a1, tx, ce2):
    return shadows_wf(a) and foreign_ok(regs2)


def lemma_restore(a, regs2, a0, a1, tx, ce2):
    hw = a._spi.hw
    ref_exit(a)
    left = cfg_regs(hw)
    down = (not hw.ce) and (hw.reg[0] & 2) == 0
    # other objects' blocks: arbitrary effect on the shared radio
    for i in range(0x1E):
        hw.reg[i] = regs2[i]
    for k in range(5):
        hw.addr0[k] = a0[k]
        hw.addr1[k] = a1[k]
        hw.txaddr[k] = tx[k]
    hw.ce = ce2
    ref_enter(a)
    return down and cfg_regs(hw) == left and (hw.reg[0] & 2) == 2 and inv(a)


RESTORE_STATE = {"a": rf24_schema(), "regs2": ListOf([Int(0, 255) for _ in range(0x1E)]),
                 "a0": ByteArray(5, 5), "a1": ByteArray(5, 5), "tx": ByteArray(5, 5), "ce2": Bool()}
LEMMAS = [
    Lemma("C09.lemma.restore", RESTORE_STATE, R + "lemma_restore", requires=[R + "req_restore"], props=["C09"],
          note="exit -> arbitrary foreign activity on the shared radio -> enter restores every configuration register (PWR_UP apart)"),
    Lemma("C09.lemma.restore.needs_inv", RESTORE_STATE, R + "lemma_restore", requires=[R + "req_restore_no_inv"], props=["C09"],
          expect_sat=True, note="vacuity guard: an object whose shadows were NOT current when it left (Inv dropped) is not restored"),
]
