"""Symbolic pre-state of a network / mesh node, the predicates Listening and NetInv, and the
contract-level abstractions of the RF24 calls the network layer makes (send / resend: C02's
contract with oracle outcomes and a ghost air log; read: C10's reference on the RX FIFO).

Received traffic is the (arbitrary, symbolic) content of the radio's RX FIFO: 0..3 payloads of
1..32 arbitrary bytes each -- "any bytes a node's radio can receive"."""
from pyvc.schema import Int, Bool, Const, Bytes, ByteArray, ListOf, Obj, OneOf, Share
from pyvc.specrt import implies, ite, oracle_int, require
from spec.rf24_state import rf24_schema, inv
from spec.net_ref import (valid_node, valid_address, level, pipe_address, level_addr, pow8, parent, top_digit)
from spec.c11 import header_schema, frame_schema

AIR = {"air_n": Const(0), "air_retx": Const(0), "air_last": Const(b""), "air_addr": Const(bytes(5)), "air_aa": Const(0),
       "air_first": Const(b""), "air_first_addr": Const(bytes(5))}


def net_schema(cls="rf24_network:RF24Network", queue=None, frame=None, extra=None, addr=None, radio_extra=None):
    env = dict(AIR)
    if radio_extra:
        env.update(radio_extra)
    f = {
        "_rf24": rf24_schema(p0=ByteArray(5, 5), env=env),
        "_net_lvl": Int(0, 4), "_addr": addr if addr is not None else Int(0, 4095),
        "_mask": Int(0, 0xFFFF), "_mask_inv": Int(0, 0xFFFF),
        "_parent": Int(0, 4095), "_parent_pipe": Int(0, 7),
        "_relay_enabled": Bool(), "_frag_enabled": Bool(),
        "tx_timeout": Int(0, 100000), "route_timeout": Int(0, 300000),
        "allow_multicast": Bool(), "ret_sys_msg": Bool(), "_parenthood": Bool(),
        "max_message_length": Int(0, 6000),
        "queue": queue if queue is not None else Obj("spec.net_state:AbsQueue", {"n": Int(0, 1000)}),
        "frame_buf": frame if frame is not None else frame_schema(True, 6000),
        "address_suffix": ByteArray(6, 6), "address_prefix": ByteArray(1, 1),
    }
    if extra:
        f.update(extra)
    return Obj(cls, f)


class AbsQueue:
    """abstraction of the frame queue for properties that do not look inside it (C07, C15):
    enqueue accepts or refuses as an oracle says (FrameQueue.enqueue never raises: C12)"""

    def enqueue(self, frame):
        ok = oracle_int(0, 1)
        # the fragment queue rewrites the CALLER's frame type for external data (by reference)
        h = frame.header
        ext = oracle_int(0, 1)
        if h.message_type == 150 and h.reserved == 131 and ext == 1:
            h.message_type = 131
        self.n = self.n + ite(ok == 1, 1, 0)
        return ok == 1

    def __len__(self):
        return self.n


# ------------------------------------------------------------------------------ predicates

def pa(self, node, pipe):
    return pipe_address(self.address_prefix[0], self.address_suffix, node, pipe, bool(self.allow_multicast))


def net_inv(self):
    """address-derived fields are the reference functions of the node address (C04)"""
    a = self._addr
    lv = level(a)
    return (valid_node(a)
            and self._mask == pow8(lv) - 1
            and self._mask_inv == (0xFFFF * pow8(lv)) % 0x10000
            and self._parent == parent(a)
            and self._parent_pipe == top_digit(a))


def listening(self):
    """C07: powered up in RX mode with CE high, all six pipes open on the node's own addresses
    (pipe 0 on its level's address), auto-ack on pipes 1-5 only, dynamic payloads on"""
    r = self._rf24
    hw = r._spi.hw
    g = hw.reg
    a = self._addr
    p0a = pa(self, a, 0)
    p0b = pa(self, level_addr(self._net_lvl), 0)
    own1 = pa(self, a, 1)
    return (inv(r) and (g[0] & 3) == 3 and hw.ce and g[2] == 0x3F and g[1] == 0x3E
            and g[0x1C] == 0x3F and (g[0x1D] & 4) != 0
            and bytes(hw.addr1) == own1
            and g[0x0C] == pa(self, a, 2)[0] and g[0x0D] == pa(self, a, 3)[0]
            and g[0x0E] == pa(self, a, 4)[0] and g[0x0F] == pa(self, a, 5)[0]
            and (bytes(hw.addr0) == p0a or bytes(hw.addr0) == p0b)
            and r._pipe0_read_addr is not None and bytes(r._pipe0_read_addr) == bytes(hw.addr0)
            and hw.ce_log == 0)


def node_ok(self):
    return net_inv(self) and listening(self)


# ------------------------------------------------------------------------------ RF24 call abstractions

def ref_send_net(self, buf, ask_no_ack, force_retry, send_only):
    """C02's contract of send(send_only=True, force_retry=0) with an oracle outcome: the payload is
    handed to the radio (ghost air log), no configuration register changes, CE is left high, the
    TX FIFO ends empty (sent) or holding the failed payload, the RX FIFO is untouched"""
    hw = self._spi.hw
    require((hw.reg[0] & 3) == 2, "send: radio powered up in TX mode")
    require(1 <= len(buf) and len(buf) <= 32, "send: 1..32 byte payload (dynamic payloads)")
    require(bool(send_only) and force_retry == 0, "send: network layer uses send_only, no forced retry")
    if hw.air_n == 0:
        hw.air_first = bytes(buf)
        hw.air_first_addr = bytes(hw.txaddr)
    hw.air_n = hw.air_n + 1
    hw.air_last = bytes(buf)
    hw.air_addr = bytes(hw.txaddr)
    hw.air_aa = hw.reg[1] & 1
    ok = oracle_int(0, 1)
    hw.set_ce(True)
    hw.tx_n = ite(ok == 1, 0, 1)
    # the RX_DR latch (write() clears all three flags) and OBSERVE_TX are whatever they end up as: the real body is
    # proved to stay within exactly this freedom (C02.send.simulates_net_abstraction)
    hw.reg[7] = (oracle_int(0, 1) * 0x40) | ite(ok == 1, 0x20, 0x10)
    hw.reg[8] = oracle_int(0, 255)
    self._in[0] = hw.status()
    return ok == 1


def ref_resend_net(self, send_only):
    hw = self._spi.hw
    require((hw.reg[0] & 3) == 2, "resend: radio powered up in TX mode")
    if hw.tx_n == 0:
        self._in[0] = hw.status()
        return False
    hw.air_retx = hw.air_retx + 1
    ok = oracle_int(0, 1)
    hw.set_ce(True)
    hw.tx_n = ite(ok == 1, 0, hw.tx_n)
    hw.reg[7] = (oracle_int(0, 1) * 0x40) | ite(ok == 1, 0x20, 0x10)   # C02.resend.simulates_net_abstraction
    hw.reg[8] = oracle_int(0, 255)
    self._in[0] = hw.status()
    return ok == 1


def ref_is_address_valid(address):
    if address is None:
        return False
    return valid_address(address)


def pre_pipe_address(self, node_addr, pipe_number):
    return ((valid_address(node_addr) or (node_addr == 0o10000 and pipe_number == 0 and bool(self.allow_multicast)))
            and 0 <= pipe_number and pipe_number <= 5)


def pre_lvl(level):
    return 0 <= level and level <= 5


NETPOL = {
    "rf24:RF24.listen.setter": "ref:spec.c08:ref_listen_set",
    "rf24:RF24.listen.getter": "ref:spec.c08:ref_listen_get",
    "rf24:RF24.auto_ack.setter": "ref:spec.c03:ref_auto_ack_set",
    "rf24:RF24.set_auto_retries": "ref:spec.c03:ref_set_auto_retries",
    "rf24:RF24.open_rx_pipe": "ref:spec.c03:ref_open_rx_pipe_v",
    "rf24:RF24.open_tx_pipe": "ref:spec.c03:ref_open_tx_pipe_v",
    "rf24:RF24.send": "ref:spec.net_state:ref_send_net",
    "rf24:RF24.resend": "ref:spec.net_state:ref_resend_net",
    "rf24:RF24.read": "ref:spec.c10:ref_read_default",
    "rf24:RF24.available": "ref:spec.c10:ref_available",
    "mixins:RadioMixin.listen.setter": "inline", "mixins:RadioMixin.listen.getter": "inline",
    "structs:is_address_valid": "ref:spec.net_state:ref_is_address_valid",
    "structs:RF24NetworkFrame.pack": "ref:spec.c11:ref_frame_pack",
    "structs:RF24NetworkFrame.unpack": "ref:spec.c11:ref_frame_unpack",
    "structs:RF24NetworkFrame.is_ack_type": "ref:spec.c11:ref_is_ack_type",
    "structs:RF24NetworkHeader.pack": "ref:spec.c11:ref_header_pack",
    "structs:RF24NetworkHeader.unpack": "ref:spec.c11:ref_header_unpack",
    "structs:RF24NetworkHeader.__init__": "inline", "structs:RF24NetworkFrame.__init__": "inline",
    "mixins:NetworkMixin._pipe_address": "ref:spec.c04:ref_pipe_address_m|pre:spec.net_state:pre_pipe_address",
    "mixins:_lvl_2_addr": "ref:spec.c04:ref_lvl_2_addr|pre:spec.net_state:pre_lvl",
    "mixins:NetworkMixin.multicast_relay.getter": "inline",
    "mixins:NetworkMixin._validate_msg_len": "inline",
}
