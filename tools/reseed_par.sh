#!/bin/sh
# parallel regression over the stored seeded changes AND harmless refactorings, each in its own scratch
# worktree of /repo (removed afterwards), so /repo itself stays untouched:
#   seeded/<id>:   the check of the property it was written against must exit 1
#   harmless/<id>: every check recorded for it must exit 0
# usage: tools/reseed_par.sh [jobs]   (default 3)
cd /verif
J=${1:-3}
mkdir -p /tmp/seed
one() {
  kind=$1; id=$2
  W=$(mktemp -d /tmp/seed/rs_XXXXXX); rmdir $W
  git -C /repo worktree add -q --detach $W HEAD || { echo "$kind $id WORKTREE-FAILED"; return; }
  if ! git -C $W apply /verif/$kind/$id/patch.diff; then echo "$kind $id NOAPPLY"; git -C /repo worktree remove --force $W; return; fi
  if [ $kind = seeded ]; then
    prop=$(python3 -c "import json;print(json.load(open('/verif/seeded/$id/meta.json'))['breaks_property'])")
    s=$(date +%s); out=$(bin/check $prop --no-evidence --repo $W 2>&1); rc=$?; e=$(date +%s)
    echo "seeded $id $prop rc=$rc $((e-s))s $(echo "$out" | grep -c VIOLATION) violation lines"
  else
    props=$(python3 -c "import json,re;print(' '.join(re.findall(r'(C\d\d):', json.load(open('/verif/harmless/$id/meta.json'))['checks_on_refactored_tree'])))")
    res=""
    for p in $props; do bin/check $p --no-evidence --repo $W >/dev/null 2>&1; res="$res $p:exit$?"; done
    echo "harmless $id$res"
  fi
  git -C /repo worktree remove --force $W
}

if [ "$2" = "--one" ]; then one $3 $4; exit 0; fi
( for d in harmless/*/; do echo "harmless $(basename $d)"; done; for d in seeded/*/; do echo "seeded $(basename $d)"; done ) > /tmp/seed/rs_list.txt
# portable parallelism: re-invoke this script for one item
cat /tmp/seed/rs_list.txt | xargs -P $J -L 1 sh $0 $J --one
