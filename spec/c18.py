"""C18 -- every advertisement is a well-formed BLE packet for the channel it is sent on.

Codec functions are proved equal to the bit-serial Bluetooth Core references of spec/ble_ref.py
(buffers of 0..BMAX bytes -- the radio carries at most 32); _make_payload / len_available /
advertise against the advertising-PDU layout; the channel invariant K (whitening channel ==
tuned frequency) is inductive over hop_channel(), channel assignments and `with` blocks."""
from pyvc.cdef import Contract, Lemma
from pyvc.schema import Int, Bool, Const, Bytes, ByteArray, Obj, OneOf, ListOf, TupleOf
from pyvc.specrt import implies, ite, is_fresh, oracle_int, require
from spec.ble_ref import rev8, crc24_bytes, crc24_of, whiten_ref, ble_channel
from spec.rf24_state import rf24_schema, inv, view_cfg
from spec.c03 import PRIMS

BMAX = 40
FREQ = (2, 26, 80)


NAMES = OneOf(Const(None), Bytes(0, 18), ByteArray(0, 18))


def ble_schema(name=None, env=None, mac=None, show=None, freq=None):
    """lean by default (no name, bytes MAC); the payload contracts ask for the alternatives"""
    return rf24_schema(cls="fake_ble:FakeBLE", p0=Const(None), env=env, extra={
        "_curr_freq": freq if freq is not None else Int(0, 2), "_show_dbm": show if show is not None else Bool(),
        "_ble_name": name if name is not None else Const(None),
        "_mac": mac if mac is not None else Bytes(6, 6),
        "rx_queue": Const([]), "rx_cache": ByteArray(0, 0)})


# ------------------------------------------------------------------ codec references

def ref_swap_bits(original):
    return rev8(original)


def ref_reverse_bits(original):
    out = []
    for b in original:
        out.append(rev8(b))
    return bytes(out)


def ref_chunk(buf, data_type):
    return bytes([len(buf) + 1, data_type & 0xFF]) + bytes(buf)


def ref_whitener(buf, coef):
    return whiten_ref(bytes(buf), coef & 0x3F)


def req_whitener(buf, coef):
    return coef == (37 | 0x40) or coef == (38 | 0x40) or coef == (39 | 0x40)


def ref_crc24(data, deg_poly, init_val):
    """one byte-step from an ARBITRARY register value (init_val) -- and whole short buffers from
    the BLE preset: both loops are left folds over the bytes with the register as their only
    state, so equality of every step from every register gives equality for every length"""
    return crc24_bytes(bytes(data), init_val)


def ref_crc24_init(data, init_val):
    """the DEFAULT polynomial (the one every caller gets) from an arbitrary register"""
    return crc24_bytes(bytes(data), init_val)


def ref_crc24_default(data):
    """default polynomial and preset, as every caller in the package uses it"""
    return crc24_bytes(bytes(data))


def ref_crc24_opaque(data, deg_poly, init_val):
    return crc24_of(bytes(data))


def ens_fresh(result):
    return is_fresh(result)


def ens_arg_same(buf, old_buf):
    return bytes(buf) == bytes(old_buf)


# ------------------------------------------------------------------ channel invariant K

def k_inv(self):
    """the whitening channel (index _curr_freq) is the frequency the radio is tuned to"""
    hw = self._spi.hw
    f = self._curr_freq
    want = ite(f == 0, 2, ite(f == 1, 26, 80))
    return 0 <= f and f <= 2 and self._channel == want and hw.reg[5] == want


def ble_ok(self):
    return inv(self) and k_inv(self)


def ens_k(self, exc):
    return ble_ok(self)


def ref_hop_channel(self):
    hw = self._spi.hw
    f = ite(self._curr_freq < 2, self._curr_freq + 1, 0)
    self._curr_freq = f
    ch = ite(f == 0, 2, ite(f == 1, 26, 80))
    self._channel = ch
    hw.reg[5] = ch
    hw.reg[8] = hw.reg[8] & 0x0F


def ref_ble_channel_set(self, value):
    """assigning one of the three BLE frequencies retunes AND re-indexes the whitening channel;
    any other value is ignored"""
    hw = self._spi.hw
    if value == 2 or value == 26 or value == 80:
        self._curr_freq = ite(value == 2, 0, ite(value == 26, 1, 2))
        self._channel = value
        hw.reg[5] = value
        hw.reg[8] = hw.reg[8] & 0x0F


def view_ble(self):
    return view_cfg(self) + (("_curr_freq", self._curr_freq), ("_show_dbm", self._show_dbm), ("_ble_name", self._ble_name),
                             ("_mac", bytes(self._mac)))


def ref_whiten(self, data):
    return whiten_ref(bytes(data), self._curr_freq + 37)


def ens_whiten_channel(self, old_self, data, result):
    """what whiten() produces de-whitens on the BLE channel of the tuned frequency"""
    hw = self._spi.hw
    return bytes(result) == whiten_ref(bytes(data), ble_channel(hw.reg[5]))


def ref_ble_exit(self):
    hw = self._spi.hw
    self._show_dbm = False
    self._ble_name = None
    hw.set_ce(False)
    self._config = self._config & 0x7D
    hw.reg[0] = self._config
    return False


# ------------------------------------------------------------------ payload assembly

def name_len(self):
    return ite(self._ble_name is None, 0, len_or0(self._ble_name) + 2)


def len_or0(b):
    if b is None:
        return 0
    return len(b)


def ref_len_available(self, hypothetical):
    """bytes still free: 32 - (2 header + 6 MAC + 3 flags + 3 CRC) - name field - PA field - data"""
    return 32 - 14 - name_len(self) - ite(bool(self._show_dbm), 3, 0) - len(hypothetical)


def pa_byte(self):
    """the PA level in dBm as a signed byte (from RF_SETUP)"""
    lv = (3 - ((self._spi.hw.reg[6] & 6) >> 1)) * -6
    return lv & 0xFF


def adv_pdu(self, payload):
    """non-connectable advertising PDU (ADV_NONCONN_IND, TxAdd random): header 0x42, length,
    MAC, flags 02 01 05, optional TX power 02 0A pa, optional name len+1 08 name, data"""
    extras = name_len(self) + ite(bool(self._show_dbm), 3, 0) + len(payload)
    buf = bytes([0x42, 9 + extras]) + bytes(self._mac) + bytes([2, 1, 5])
    if self._show_dbm:
        buf = buf + bytes([2, 0x0A, pa_byte(self)])
    if self._ble_name is not None:
        buf = buf + bytes([len(self._ble_name) + 1, 0x08]) + bytes(self._ble_name)
    return buf + bytes(payload)


def req_payload(self, payload):
    return ble_ok(self)


def name_fits(self):
    """kept by the name / show_pa_level setters"""
    return len_or0(self._ble_name) <= 18 - ite(bool(self._show_dbm), 3, 0)


def ens_make_payload(self, old_self, payload, result, exc):
    """ValueError exactly when the packet would not fit in 32 bytes; else PDU + CRC-24"""
    fits = ref_len_available(old_self, payload) >= 0
    if exc is not None:
        return exc == "ValueError" and not fits
    pdu = adv_pdu(old_self, payload)
    return fits and bytes(result) == pdu + crc24_of(pdu) and len(result) <= 32


def ref_send_ble(self, buf, ask_no_ack, force_retry, send_only):
    hw = self._spi.hw
    require(1 <= len(buf) and len(buf) <= 32, "send: 1..32 bytes")
    hw.air_n = hw.air_n + 1
    hw.air_last = bytes(buf)
    hw.set_ce(True)
    hw.reg[7] = (hw.reg[7] & 0x40) | 0x20
    hw.tx_n = 0
    self._in[0] = hw.status()
    return True


def req_advertise(self, buf, data_type):
    return ble_ok(self) and self._spi.hw.air_n == 0


def chunks_of(buf, data_type):
    if isinstance(buf, (list, tuple)):
        out = b""
        for c in buf:
            out = out + bytes(c)
        return out
    if len(buf) == 0:
        return b""
    return bytes([len(buf) + 1, data_type & 0xFF]) + bytes(buf)


def ens_advertise(self, old_self, old_buf, data_type, exc):
    """the radio payload, read as the on-air bit stream of the tuned BLE channel (each sent byte
    MSBit first = each logical byte LSBit first), de-whitens to PDU + CRC with the caller's chunks
    verbatim; ValueError exactly when it would not fit"""
    hw = self._spi.hw
    data = chunks_of(old_buf, data_type)
    fits = ref_len_available(old_self, data) >= 0
    if exc is not None:
        return exc == "ValueError" and not fits and hw.air_n == 0
    pdu = adv_pdu(old_self, data)
    logical = pdu + crc24_of(pdu)
    sent = hw.air_last
    unrev = ref_reverse_bits(sent)                       # on-air LSBit-first reading of each byte
    return (fits and hw.air_n == 1 and len(sent) == len(logical)
            and whiten_ref(unrev, ble_channel(hw.reg[5])) == logical)


# ------------------------------------------------------------------ setters guarding the capacity

def ens_name_set(self, old_self, _name, exc):
    if exc is not None:
        return exc == "ValueError" and view_ble(self) == view_ble(old_self)
    return name_fits(self) and implies(_name is None, self._ble_name is None)


def ens_show_pa(self, old_self, enable, exc):
    if exc is not None:
        return exc == "ValueError" and view_ble(self) == view_ble(old_self)
    return bool(self._show_dbm) == bool(enable)


def req_fits(self):
    return name_fits(self)


R = "spec.c18:"
BPOL = dict(PRIMS)
BPOL.update({
    "fake_ble:swap_bits": "ref:" + R + "ref_swap_bits", "fake_ble:reverse_bits": "ref:" + R + "ref_reverse_bits",
    "fake_ble:chunk": "ref:" + R + "ref_chunk", "fake_ble:whitener": "ref:" + R + "ref_whitener|pre:" + R + "req_whitener",
    "fake_ble:crc24_ble": "ref:" + R + "ref_crc24_opaque",
    "fake_ble:FakeBLE.whiten": "inline", "fake_ble:FakeBLE.len_available": "inline", "fake_ble:FakeBLE._make_payload": "inline",
    "fake_ble:FakeBLE.mac.getter": "inline", "fake_ble:FakeBLE.channel.setter": "inline",
    "rf24:RF24.pa_level.getter": "ref:spec.c03:ref_pa_level_get", "rf24:RF24.send": "ref:" + R + "ref_send_ble",
    "rf24:RF24.__exit__": "ref:spec.c09:ref_exit",
})
AIRENV = {"air_n": Const(0), "air_last": Const(b"")}
BUF = OneOf(Bytes(0, BMAX), ByteArray(0, BMAX))

CONTRACTS = [
    Contract("C18.swap_bits", "fake_ble:swap_bits", {"original": Int()}, refines=R + "ref_swap_bits", props=["C18"]),
    Contract("C18.reverse_bits", "fake_ble:reverse_bits", {"original": BUF}, refines=R + "ref_reverse_bits",
             ensures=[("fresh", R + "ens_fresh")], policy={"fake_ble:swap_bits": "ref:" + R + "ref_swap_bits"}, props=["C18"]),
    Contract("C18.chunk", "fake_ble:chunk", {"buf": BUF, "data_type": Int()}, refines=R + "ref_chunk", props=["C18"]),
] + [
    Contract("C18.whitener[ch%d]" % ch, "fake_ble:whitener", {"buf": OneOf(Bytes(0, 32), ByteArray(0, 32)), "coef": Const(ch | 0x40)},
             refines=R + "ref_whitener", ensures=[("fresh", R + "ens_fresh"), ("arg_same", R + "ens_arg_same")], props=["C18", "C19"])
    for ch in (37, 38, 39)
] + [
    Contract("C18.crc24_ble.step", "fake_ble:crc24_ble", {"data": OneOf(Bytes(1, 1), ByteArray(1, 1)), "init_val": Int(0, 0xFFFFFF)},
             kw=["init_val"], refines=R + "ref_crc24_init", policy={"fake_ble:swap_bits": "ref:" + R + "ref_swap_bits", "fake_ble:reverse_bits": "ref:" + R + "ref_reverse_bits"},
             props=["C18", "C19"], timeout_ms=60000),
    Contract("C18.crc24_ble.short", "fake_ble:crc24_ble", {"data": OneOf(Bytes(0, 2), ByteArray(0, 2))},
             refines=R + "ref_crc24_default", policy={"fake_ble:swap_bits": "ref:" + R + "ref_swap_bits", "fake_ble:reverse_bits": "ref:" + R + "ref_reverse_bits"},
             props=["C18", "C19"], timeout_ms=60000),
    Contract("C18.hop_channel", "fake_ble:FakeBLE.hop_channel", {"self": ble_schema()}, requires=[R + "ble_ok"],
             refines=R + "ref_hop_channel", view=R + "view_ble", ensures=[("K", R + "ens_k")], policy=BPOL, props=["C18", "C19"]),
    Contract("C18.channel.set", "fake_ble:FakeBLE.channel.setter", {"self": ble_schema(), "value": Int()}, requires=[R + "ble_ok"],
             refines=R + "ref_ble_channel_set", view=R + "view_ble", ensures=[("K", R + "ens_k")], policy=BPOL, props=["C18", "C19"]),
    Contract("C18.whiten", "fake_ble:FakeBLE.whiten", {"self": ble_schema(), "data": Bytes(0, 32)},
             requires=[R + "ble_ok"], refines=R + "ref_whiten", view=R + "view_ble", ensures=[("tuned_channel", R + "ens_whiten_channel")],
             policy=BPOL, props=["C18", "C19"]),
    Contract("C18.exit", "fake_ble:FakeBLE.__exit__", {"self": ble_schema()}, requires=[R + "ble_ok"],
             refines=R + "ref_ble_exit", view=R + "view_ble", ensures=[("K", R + "ens_k")], policy=BPOL, props=["C18", "C09", "C19"]),
    Contract("C18.len_available", "fake_ble:FakeBLE.len_available", {"self": ble_schema(name=NAMES), "hypothetical": BUF},
             refines=R + "ref_len_available", view=R + "view_ble", policy=BPOL, props=["C18"]),
] + [
    Contract("C18._make_payload[%s,pa=%s]" % (nm, sh), "fake_ble:FakeBLE._make_payload",
             {"self": ble_schema(name=nsch, mac=msch, show=Const(sh)), "payload": BUF},
             requires=[R + "req_payload"], ensures=[("pdu", R + "ens_make_payload")], raises=("ValueError",), policy=BPOL, props=["C18"],
             timeout_ms=120000)
    for (nm, nsch, msch) in (("no name", Const(None), OneOf(Bytes(6, 6), ByteArray(6, 6))), ("bytes name", Bytes(0, 18), Bytes(6, 6)),
                             ("bytearray name", ByteArray(0, 18), Bytes(6, 6)))
    for sh in (False, True)
] + [
    Contract("C18.advertise[%s,pa=%s]" % (nm, sh), "fake_ble:FakeBLE.advertise",
             {"self": ble_schema(env=AIRENV, name=nsch, show=Const(sh)), "buf": bsch, "data_type": Int()},
             requires=[R + "req_advertise"], ensures=[("on_air", R + "ens_advertise"), ("K", R + "ens_k")], raises=("ValueError",),
             policy=BPOL, props=["C18"], replayable=False, timeout_ms=120000)
    for (nm, nsch, bsch) in (("no name, buffer", Const(None), OneOf(Bytes(0, 24), ByteArray(0, 24))),
                             ("no name, chunk list", Const(None), OneOf(ListOf([]), ListOf([Bytes(0, 12)]), TupleOf([Bytes(0, 10), ByteArray(0, 10)]))),
                             ("name, buffer", Bytes(0, 18), Bytes(0, 24)))
    for sh in (False, True)
] + [
    Contract("C18.name.set", "fake_ble:FakeBLE.name.setter", {"self": ble_schema(name=NAMES), "_name": OneOf(Const(None), Bytes(0, BMAX), ByteArray(0, BMAX))},
             requires=[R + "req_fits"], ensures=[("fits", R + "ens_name_set")], raises=("ValueError",), policy=BPOL, props=["C18"]),
    Contract("C18.show_pa_level.set", "fake_ble:FakeBLE.show_pa_level.setter", {"self": ble_schema(name=NAMES), "enable": OneOf(Bool(), Int())},
             requires=[R + "req_fits"], ensures=[("fits", R + "ens_show_pa")], raises=("ValueError",), policy=BPOL, props=["C18"]),
]


# ---- FakeBLE.__init__ establishes Inv, K and the BLE link configuration (base case of every
#      "after any sequence of hop_channel / channel assignments / with blocks" statement above)

def req_ble_init(self, spi, csn, ce_pin, spi_frequency):
    from spec.rf24_state import hw_ranges
    return hw_ranges(spi.hw) and same_object(ce_pin.hw, spi.hw)


def ens_ble_init(self, exc):
    """CRC, auto-ack, dynamic payloads, features and retries off; 4-byte addresses; TX address and
    pipe 0 on the BLE advertising access address; 32-byte static payloads; whitening index == the
    tuned advertising channel (K); powered down with CE low; an empty receive queue"""
    hw = self._spi.hw
    g = hw.reg
    aa = bytes([0x71, 0x91, 0x7D, 0x6B])
    return (exc is None and ble_ok(self) and (g[0] & 0x0C) == 0 and g[1] == 0 and g[0x1C] == 0 and g[0x1D] == 0 and g[4] == 0
            and g[3] == 2 and bytes(hw.txaddr)[:4] == aa and bytes(hw.addr0)[:4] == aa and (g[2] & 1) != 0
            and g[0x11] == 32 and not hw.ce and (g[0] & 2) == 0 and len(self.rx_queue) == 0 and len(self._mac) == 6
            and self._ble_name is None and not self._show_dbm)


from spec.c09 import INIT_POL  # noqa: E402
from pyvc.specrt import same_object  # noqa: E402
from spec.rf24_state import radio_schema  # noqa: E402
from pyvc.schema import Obj  # noqa: E402

BLE_INIT_POL = dict(INIT_POL)
BLE_INIT_POL.update({"rf24:RF24.__init__": "inline", "fake_ble:FakeBLE.__exit__": "inline", "fake_ble:FakeBLE.hop_channel": "ref:" + R + "ref_hop_channel",
                     "rf24:RF24.open_rx_pipe": "ref:spec.c03:ref_open_rx_pipe_v", "fake_ble:FakeBLE.channel.setter": "inline"})
CONTRACTS.append(
    Contract("C18.init", "fake_ble:FakeBLE.__init__",
             {"self": Obj("fake_ble:FakeBLE", {}), "spi": Obj("spec.hw:SpiStub", {"hw": radio_schema()}), "csn": Const(None),
              "ce_pin": Obj("spec.hw:Pin", {"hw": radio_schema()}), "spi_frequency": Const(10000000)},
             requires=[R + "req_ble_init"], ensures=[("ble_config_and_K", R + "ens_ble_init")], raises=(), policy=BLE_INIT_POL,
             props=["C18", "C09", "C19"]))


# ---- the radio is SHARED (C09): between an object's own `with` blocks another object re-tunes it.
#      What the object itself must keep, whatever the registers hold, is its INTERNAL consistency
#      K_int (whitening index <-> cached channel); __enter__ then re-establishes K from it.  A getter
#      that "refreshes" the cached channel from a foreign register file breaks K_int silently (seed
#      s68): the next `with` block tunes to the other object's frequency and whitens for its own.

def k_int(self):
    f = self._curr_freq
    want = ite(f == 0, 2, ite(f == 1, 26, 80))
    return 0 <= f and f <= 2 and self._channel == want


def req_foreign(self):
    from spec.c09 import shadows_wf
    return shadows_wf(self) and k_int(self)


def ens_channel_get_foreign(self, old_self, result, exc):
    return (exc is None and result == self._spi.hw.reg[5] and k_int(self)
            and self._curr_freq == old_self._curr_freq and self._channel == old_self._channel)


def ens_enter_k(self, old_self, result, exc):
    return exc is None and ble_ok(self) and self._curr_freq == old_self._curr_freq


from spec.c09 import POL as ENTER_POL  # noqa: E402

CONTRACTS += [
    Contract("C18.channel.get.foreign_radio", "rf24:RF24.channel.getter", {"self": ble_schema()}, requires=[R + "req_foreign"],
             ensures=[("K_int", R + "ens_channel_get_foreign")], raises=(), policy=BPOL, props=["C18", "C19", "C09"]),
    Contract("C18.enter.foreign_radio", "rf24:RF24.__enter__", {"self": ble_schema()}, requires=[R + "req_foreign"],
             ensures=[("K", R + "ens_enter_k")], raises=(), policy=ENTER_POL, props=["C18", "C19", "C09"]),
]
