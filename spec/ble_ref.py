"""Bit-serial references for BLE advertising packets, written from the Bluetooth Core
Specification v4.x, Vol 6 Part B: 3.1.1 (CRC: 24-bit LFSR, x^24+x^10+x^9+x^6+x^4+x^3+x+1, preset
0x555555 on advertising channels, PDU bits fed in transmission order = LSBit of each byte first,
register transmitted from position 23 down to 0) and 3.2 (whitening: 7-bit LFSR x^7+x^4+1,
position 0 = 1, positions 1..6 = channel index with its MSB in position 1; each data bit is
XORed with position 6).

The nRF24L01 shifts every byte out MSBit first while BLE wants the LSBit first, so the driver
bit-reverses each byte last (reverse_bits); a byte B of the logical packet is therefore on the
air LSBit first, which is the order assumed here."""
from pyvc.specrt import ite, uf_bytes


def rev8(x):
    """bit reversal of the low byte"""
    x = x & 0xFF
    r = 0
    for i in range(8):
        r = r | (((x >> i) & 1) << (7 - i))
    return r


def crc24_reg(data, reg=0x555555):
    """CRC register after the PDU bytes `data` (bit k of the result = LFSR position k)"""
    for byte in data:
        for i in range(8):
            b = (byte >> i) & 1                      # transmission order: LSBit first
            fb = b ^ ((reg >> 23) & 1)
            reg = (reg << 1) & 0xFFFFFF
            reg = ite(fb == 1, reg ^ 0x00065B, reg)  # taps 10, 9, 6, 4, 3, 1, 0
    return reg


def crc24_of(data):
    """crc24_bytes kept opaque for symbolic packets (used where only `same packet => same CRC`
    matters; the function itself is tied to the code by C18.crc24_ble.*)"""
    return uf_bytes("crc24", crc24_bytes, data, 32, 3)


def crc24_bytes(data, reg0=0x555555):
    """the three CRC bytes as they sit in the logical packet: on the air (LSBit of each byte
    first) they read position 23, 22, ..., 0"""
    reg = crc24_reg(data, reg0)
    out = []
    for j in range(3):
        v = 0
        for i in range(8):
            v = v | (((reg >> (23 - 8 * j - i)) & 1) << i)
        out.append(v)
    return bytes(out)


def whiten_ref(data, channel_index):
    """whitened (= de-whitened) bytes for BLE channel index 37/38/39"""
    pos = [1, (channel_index >> 5) & 1, (channel_index >> 4) & 1, (channel_index >> 3) & 1,
           (channel_index >> 2) & 1, (channel_index >> 1) & 1, channel_index & 1]
    out = []
    for byte in data:
        v = 0
        for i in range(8):
            o = pos[6]
            v = v | ((((byte >> i) & 1) ^ o) << i)
            pos = [o, pos[0], pos[1], pos[2], pos[3] ^ o, pos[4], pos[5]]
        out.append(v)
    return bytes(out)


def ble_channel(rf_ch):
    """RF_CH 2 / 26 / 80 (2402 / 2426 / 2480 MHz) are BLE advertising channels 37 / 38 / 39"""
    return ite(rf_ch == 2, 37, ite(rf_ch == 26, 38, ite(rf_ch == 80, 39, -1)))
