#!/bin/sh
# usage: tools/refcheck.sh <worktree> <id> <PROP> [more props...]
# stores a behaviour-preserving refactoring made by a sub-agent (refactor_patch.diff, notes.txt) under
# harmless/<id>/, confirms the suite still passes in the worktree, applies it to /repo, runs the checks
# (every one must exit 0: no VIOLATION on code where the property holds), and undoes it.
W="$1"; ID="$2"; shift 2
cd "$W" || exit 9
T_AFTER=$(PYTHONPATH="$W" /venv/bin/python -m pytest -q -p no:cacheprovider 2>&1 | tail -1)
mkdir -p /verif/harmless/$ID
git diff > /verif/harmless/$ID/patch.diff
cp notes.txt /verif/harmless/$ID/notes.txt 2>/dev/null
cd /verif
git -C /repo apply /verif/harmless/$ID/patch.diff || { echo "PATCH DOES NOT APPLY TO /repo"; exit 8; }
RES=""
for Q in "$@"; do
  OUT=$(bin/check $Q --no-evidence 2>&1); RC=$?
  echo "--- check $Q on the refactored tree: exit $RC"; echo "$OUT" | grep -E "^C[0-9]+:|VIOLATION|UNDECIDED|FAULT" | head -8
  RES="$RES $Q:exit$RC"
done
git -C /repo checkout -- .
git -C /repo status --short | head -3
python3 - "$ID" "$T_AFTER" "$RES" <<'PY'
import json, sys
sid, ta, res = sys.argv[1:4]
json.dump({"id": sid, "kind": "behaviour-preserving refactoring (sub-agent, given only the property text and a scratch worktree)",
           "tests_after": ta.strip(), "checks_on_refactored_tree": res.strip(),
           "ran": "git -C /repo apply harmless/%s/patch.diff; bin/check <ID> --no-evidence; git -C /repo checkout -- ." % sid},
          open('/verif/harmless/%s/meta.json' % sid, 'w'), indent=1)
print(ta.strip(), res)
PY
