"""Core data structures of the symbolic executor: heap objects, control-flow signals, and the
per-path context `Ctx` (path condition, fork/decision replay, obligations)."""
import time
import z3
from . import sym
from .sym import SInt, SBool, Unsupported, bz, mkb


class Ref:
    __slots__ = ("oid",)

    def __init__(self, oid):
        self.oid = oid

    def __eq__(self, o):
        return isinstance(o, Ref) and o.oid == self.oid

    def __hash__(self):
        return hash(("ref", self.oid))

    def __repr__(self):
        return "Ref(%d)" % self.oid


class HObj:
    __slots__ = ("cls", "fields")

    def __init__(self, cls, fields=None):
        self.cls = cls
        self.fields = fields if fields is not None else {}

    def clone(self):
        return HObj(self.cls, dict(self.fields))


class HList:
    __slots__ = ("items",)

    def __init__(self, items):
        self.items = items

    def clone(self):
        return HList(list(self.items))


class HByteArray:
    __slots__ = ("term",)

    def __init__(self, term):
        self.term = term

    def clone(self):
        return HByteArray(self.term)


class HDict:
    """insertion-ordered association list (concrete number of entries)"""
    __slots__ = ("keys", "vals")

    def __init__(self, keys=None, vals=None):
        self.keys = keys or []
        self.vals = vals or []

    def clone(self):
        return HDict(list(self.keys), list(self.vals))


class HSet:
    __slots__ = ("items",)

    def __init__(self, items=None):
        self.items = items or []

    def clone(self):
        return HSet(list(self.items))


class VBytes:
    """immutable bytes value"""
    __slots__ = ("term",)

    def __init__(self, term):
        self.term = term


class VStr:
    """opaque (unknown) string; only identity of origin is kept"""
    __slots__ = ("tag",)

    def __init__(self, tag="?"):
        self.tag = tag


class BuiltinType:
    def __init__(self, name):
        self.name = name

    def __repr__(self):
        return "<type %s>" % self.name


class BuiltinFn:
    def __init__(self, name, fn):
        self.name = name
        self.fn = fn


class BoundBuiltin:
    def __init__(self, recv, name):
        self.recv = recv
        self.name = name


class BoundMethod:
    def __init__(self, recv, func):
        self.recv = recv
        self.func = func


class ModuleVal:
    def __init__(self, name):
        self.name = name


class Opaque:
    """value the executor knows nothing about (typing names, busio, ...)"""
    def __init__(self, name):
        self.name = name

    def __repr__(self):
        return "<opaque %s>" % self.name


class TypeOfVal:
    def __init__(self, name):
        self.name = name


class SuperProxy:
    def __init__(self, cls, recv):
        self.cls = cls
        self.recv = recv


class PropRef:
    """a property object reached through its class (for @Base.prop.setter)"""
    def __init__(self, name, getter, setter):
        self.name = name
        self.getter = getter
        self.setter = setter


class LambdaVal:
    def __init__(self, node, frame):
        self.node = node
        self.frame = frame


# ---------------------------------------------------------------- control flow signals

class PyRaise(Exception):
    def __init__(self, type_name, note=""):
        Exception.__init__(self, type_name, note)
        self.type_name = type_name
        self.note = note


class ReturnSig(Exception):
    def __init__(self, value):
        self.value = value


class BreakSig(Exception):
    pass


class ContinueSig(Exception):
    pass


class PathEnd(Exception):
    """path abandoned (infeasible, or cut by an assumption)"""


class ImpureAbort(Exception):
    """a merge attempt met a side effect / fork / raise -> fall back to forking"""


EXC_PARENT = {
    "UnicodeDecodeError": "UnicodeError", "UnicodeEncodeError": "UnicodeError",
    "UnicodeError": "ValueError", "IndexError": "LookupError", "KeyError": "LookupError",
    "ModuleNotFoundError": "ImportError", "NotImplementedError": "RuntimeError",
    "ZeroDivisionError": "ArithmeticError", "OverflowError": "ArithmeticError",
    "struct.error": "Exception",
}


def exc_isinstance(name, base):
    while True:
        if name == base or base in ("Exception", "BaseException"):
            return True
        if name not in EXC_PARENT:
            return False
        name = EXC_PARENT[name]


class Obligation:
    __slots__ = ("name", "status", "time", "model", "info", "path", "solver", "smt2")

    def __init__(self, name, status, t, model=None, info=None, path=None, solver="z3", smt2=None):
        self.name = name
        self.status = status  # 'unsat' (discharged) | 'sat' | 'unknown'
        self.time = t
        self.model = model
        self.info = info
        self.path = path
        self.solver = solver
        self.smt2 = smt2


class Prefix(list):
    """a decision prefix + the fingerprints (z3 structural hashes) of the conditions decided"""
    fps = ()


class ReplayDivergence(Exception):
    pass


class Ctx:
    """One execution path.  Forks are explored by re-execution with a decision prefix."""

    def __init__(self, program, prefix=(), timeout_ms=20000, record_smt=False, nested=False):
        self.program = program
        self.prefix = list(prefix)
        self.prefix_fps = list(getattr(prefix, "fps", ()))   # fingerprints of the conditions decided
        self.fps = []
        self.pos = 0
        self.decisions = []
        self.alts = []          # decision lists to explore later
        self.heap = {}
        self.next_oid = 1
        self.pc = []
        import os as _os
        lg = _os.environ.get("PYVC_LOGIC")
        self.solver = z3.SolverFor(lg) if lg else z3.Solver()
        self.solver.set("timeout", timeout_ms)
        self.timeout_ms = timeout_ms
        self.fresh_n = 0
        self.obligations = []
        self.inputs = {}        # label -> z3 const (for counter-model extraction)
        self.input_meta = {}    # label -> kind
        self.class_state = {}
        self.deadline = None     # wall-clock end of the exploration task this path belongs to
        self.write_log = None    # set of (oid, key) while a loop's havoc functions run (their footprint)
        self.pure = 0
        self.pure_floor = 0
        self.allow_mut = 0
        self.guards = []
        self.clock = None
        self.poll_bound = None
        self.clock_strict = False   # the next monotonic_ns() reading is strictly later (set by the variant rule)
        self.policy = None      # callable(FuncInfo, args) -> decision
        self.loop_specs = {}
        self.solver_time = 0.0
        self.solver_calls = 0
        self.depth = 0
        self.side_unknown = []
        self._pending = []
        self.recheck_left = 0
        self.rechecked = []
        self.concrete = None    # differential mode: label -> concrete input value
        self.record_smt = record_smt
        self.ghost = {}
        self.notes = []
        self.cur_func = None
        if not nested:
            # a nested context (module initialisation while a path is being run) must not disturb the
            # refinements / overflow hook of the running path
            sym.set_overflow_hook(self._overflow)
            sym.reset_refinements()

    # ----------------------------------------------------------------- heap
    def alloc(self, obj):
        oid = self.next_oid
        self.next_oid += 1
        self.heap[oid] = obj
        return Ref(oid)

    def obj(self, ref):
        return self.heap[ref.oid]

    def mutate(self, ref, key=None):
        """must be called before any in-place change of a heap object; `key` names the one location
        that changes (attribute name / ("i", index)), None = the object as a whole"""
        if self.pure and not self.allow_mut and ref.oid < self.pure_floor:
            raise ImpureAbort()
        if self.write_log is not None:
            self.write_log.add((ref.oid, key))
        return self.heap[ref.oid]

    # ----------------------------------------------------------------- symbols
    def fresh_bv(self, name, bits=64):
        self.fresh_n += 1
        return z3.BitVec("%s!%d" % (name, self.fresh_n), bits)

    def fresh_bool(self, name):
        self.fresh_n += 1
        return z3.Bool("%s!%d" % (name, self.fresh_n))

    def input_int(self, label, lo, hi):
        if self.concrete is not None:
            v = int(self.concrete.get(label, lo if lo > 0 else min(max(0, lo), hi)))
            return max(lo, min(hi, v))
        if self.pure:
            raise ImpureAbort()
        c = z3.BitVec("in!" + label, 64)
        self.inputs[label] = c
        self.input_meta[label] = "int"
        v = SInt(c, lo, hi)
        # range facts are batched and handed to the solver before its next query
        e = z3.And(c >= sym.bvv(lo), c <= sym.bvv(hi))
        self.pc.append(e)
        self._pending.append(e)
        return v

    def input_bool(self, label):
        if self.concrete is not None:
            return bool(self.concrete.get(label, False))
        if self.pure:
            raise ImpureAbort()
        c = z3.Bool("in!" + label)
        self.inputs[label] = c
        self.input_meta[label] = "bool"
        return SBool(c)

    def input_array(self, label):
        if self.pure:
            raise ImpureAbort()
        c = z3.Array("in!" + label, z3.BitVecSort(64), z3.BitVecSort(8))
        self.inputs[label] = c
        self.input_meta[label] = "array"
        return c

    def input_byte(self, label):
        if self.concrete is not None:
            return int(self.concrete.get(label, 0)) & 0xFF
        if self.pure:
            raise ImpureAbort()
        c = z3.BitVec("in!" + label, 8)
        self.inputs[label] = c
        self.input_meta[label] = "byte"
        return SInt(z3.ZeroExt(56, c), 0, 255)

    # ----------------------------------------------------------------- path condition
    def pc_add(self, e):
        self.pc.append(e)
        self.solver.add(e)
        sym.refine_from(e)

    def _check(self, *extra):
        if self._pending:
            self.solver.add(*self._pending)
            self._pending = []
        t0 = time.time()
        r = self.solver.check(*extra)
        self.solver_time += time.time() - t0
        self.solver_calls += 1
        return r

    def assume(self, b):
        if isinstance(b, bool):
            if not b:
                raise PathEnd()
            return
        if self.pure:
            raise ImpureAbort()
        self.pc_add(b.e)

    def branch(self, cond):
        """decide a (possibly symbolic) condition; forks are queued as decision prefixes"""
        if isinstance(cond, bool):
            return cond
        if not isinstance(cond, SBool):
            raise Unsupported("branch on non-bool %r" % (cond,))
        e = cond.e
        if self.pure:
            # inside a merge attempt: a condition decided by the path + arm guards needs no fork
            g = list(self.guards)
            if self._check(*(g + [z3.Not(e)])) == z3.unsat:
                return True
            if self._check(*(g + [e])) == z3.unsat:
                return False
            raise ImpureAbort()
        fp = e.hash()
        if self.deadline is not None and time.time() > self.deadline:
            raise Unsupported("time budget of the exploration task exhausted inside one path (unbounded loop?)")
        if self.pos < len(self.prefix):
            d = self.prefix[self.pos]
            if self.pos < len(self.prefix_fps) and self.prefix_fps[self.pos] != fp:
                # the re-execution does not meet the condition this decision was recorded for: the
                # alternative would explore something else than intended (coverage hole)
                raise ReplayDivergence("decision %d of %d replays on a different condition" % (self.pos, len(self.prefix)))
            self.pos += 1
            self.decisions.append(d)
            self.fps.append(fp)
            self.pc_add(e if d else z3.Not(e))
            return d
        rt = self._check(e)
        rf = self._check(z3.Not(e))
        can_t = rt != z3.unsat
        can_f = rf != z3.unsat
        if not can_t and not can_f:
            raise PathEnd()
        self.pos += 1
        if can_t and can_f:
            alt = Prefix(self.decisions + [False])
            alt.fps = self.fps + [fp]
            self.alts.append(alt)
            d = True
        else:
            d = can_t
        self.decisions.append(d)
        self.fps.append(fp)
        self.pc_add(e if d else z3.Not(e))
        return d

    def feasible(self):
        return self._check() != z3.unsat

    # ----------------------------------------------------------------- obligations
    def _overflow(self, cond_ok, what):
        g = [x for x in self.guards]
        goal = z3.Implies(z3.And(*g), cond_ok) if g else cond_ok
        r = self._check(z3.Not(goal))
        if r != z3.unsat:
            # not provably overflow-free under this path: the BV encoding may differ from Python.
            self.side_unknown.append("possible 64-bit overflow in '%s' (%s) in %s" % (what, r, self.cur_func))

    def oblige(self, name, cond, info=None):
        """prove cond under the current path condition (and the guards of enclosing merged arms)"""
        t0 = time.time()
        if self.guards:
            g = z3.And(*self.guards) if len(self.guards) > 1 else self.guards[0]
            cond = mkb(z3.Implies(g, bz(cond)))
        if isinstance(cond, bool):
            if cond:
                self.obligations.append(Obligation(name, "unsat", 0.0, info=info, path=list(self.decisions), solver="fold"))
                return True
            # concrete False under a feasible path: it is a violation iff the path is feasible
            r = self._check()
            st = "sat" if r == z3.sat else ("unsat" if r == z3.unsat else "unknown")
            m = self.solver.model() if r == z3.sat else None
            self.obligations.append(Obligation(name, st, time.time() - t0, model=self._extract(m), info=info, path=list(self.decisions)))
            return st == "unsat"
        neg = z3.Not(cond.e)
        smt2 = None
        if self.record_smt:
            smt2 = self._smt2(neg)
        r = self._check(neg)
        dt = time.time() - t0
        if r == z3.unsat:
            solver_name = "z3"
            if self.recheck_left > 0:
                # thorough tier: independent second opinion on a sample of the VCs
                self.recheck_left -= 1
                from . import backend
                r2 = backend.cvc5_check(self._smt2(neg), 30000)
                self.rechecked.append((name, r2))
                if r2 == "sat":
                    self.obligations.append(Obligation(name, "unknown", dt, info={"solver_disagreement": "z3 unsat, cvc5 sat"},
                                                       path=list(self.decisions)))
                    return False
                if r2 == "unsat":
                    solver_name = "z3+cvc5"
            self.obligations.append(Obligation(name, "unsat", dt, info=info, path=list(self.decisions), smt2=smt2, solver=solver_name))
            if not self.pure:
                self.pc_add(cond.e)
            return True
        if r == z3.sat:
            m = self.solver.model()
            self.obligations.append(Obligation(name, "sat", dt, model=self._extract(m), info=info, path=list(self.decisions), smt2=smt2))
            return False
        # unknown: try cvc5 on the dumped query
        smt2 = smt2 or self._smt2(neg)
        from . import backend
        r2 = backend.cvc5_check(smt2, self.timeout_ms)
        dt = time.time() - t0
        if r2 == "unsat":
            self.obligations.append(Obligation(name, "unsat", dt, info=info, path=list(self.decisions), solver="cvc5", smt2=smt2))
            if not self.pure:
                self.pc_add(cond.e)
            return True
        self.obligations.append(Obligation(name, "unknown", dt, info=info, path=list(self.decisions), smt2=smt2))
        return False

    def _smt2(self, extra):
        s = z3.Solver()
        for e in self.pc:
            s.add(e)
        s.add(extra)
        return s.to_smt2()

    def _extract(self, m):
        if m is None:
            return None
        out = {}
        for label, c in self.inputs.items():
            kind = self.input_meta[label]
            if kind == "array":
                out[label] = ("array", m, c)  # resolved lazily by the schema reader
                continue
            v = m.eval(c, model_completion=True)
            if kind == "int":
                out[label] = v.as_signed_long()
            elif kind == "byte":
                out[label] = v.as_long()
            elif kind == "bool":
                out[label] = bool(z3.is_true(v))
        # resolve arrays to concrete lists using their '#len' companion when present
        for label in list(out):
            if isinstance(out[label], tuple) and out[label][0] == "array":
                _, mm, c = out[label]
                n = out.get(label + "#len", 0)
                n = max(0, min(int(n), 512))
                out[label] = [mm.eval(z3.Select(c, sym.bvv(k)), model_completion=True).as_long() for k in range(n)]
        return out
