"""C11 -- header and frame wire formats (codec part; the fragment loop is in spec/c05.py).

Reference: TMRh20 RF24Network header layout -- from_node, to_node, id as little-endian uint16,
then type and reserved bytes; 8 bytes in all."""
from pyvc.cdef import Contract, Lemma
from pyvc.schema import Int, Bool, Const, Bytes, ByteArray, Obj, OneOf
from pyvc.specrt import implies, ite, is_fresh

HDR = "structs:RF24NetworkHeader"
FRM = "structs:RF24NetworkFrame"


def header_schema(wire=False):
    if wire:
        return Obj(HDR, {"from_node": Int(0, 0xFFFF), "to_node": Int(0, 0xFFFF), "frame_id": Int(0, 0xFFFF),
                         "message_type": Int(0, 255), "reserved": Int(0, 255)})
    return Obj(HDR, {"from_node": Int(), "to_node": Int(), "frame_id": Int(), "message_type": Int(), "reserved": Int()})


def frame_schema(wire=True, maxlen=None, msg=None):
    return Obj(FRM, {"header": header_schema(wire),
                     "message": msg if msg is not None else OneOf(Bytes(0, maxlen), ByteArray(0, maxlen))})


def le16(v):
    return bytes([v % 256, (v // 256) % 256])


def ref_header_pack(self):
    return (le16(self.from_node & 0xFFF) + le16(self.to_node & 0xFFF) + le16(self.frame_id & 0xFFFF)
            + bytes([self.message_type & 0xFF, self.reserved & 0xFF]))


def ref_header_unpack(self, buffer):
    if len(buffer) < 8:
        return False
    self.from_node = buffer[0] + 256 * buffer[1]
    self.to_node = buffer[2] + 256 * buffer[3]
    self.frame_id = buffer[4] + 256 * buffer[5]
    self.message_type = buffer[6]
    self.reserved = buffer[7]
    return True


def view_header(self):
    return (("from_node", self.from_node), ("to_node", self.to_node), ("frame_id", self.frame_id),
            ("message_type", self.message_type), ("reserved", self.reserved))


def ens_len8(result):
    return len(result) == 8


def ref_header_len(self):
    return 8


def ref_frame_pack(self):
    return ref_header_pack(self.header) + bytes(self.message)


def ref_frame_unpack(self, buffer):
    if not ref_header_unpack(self.header, buffer):
        return False
    self.message = buffer[8:]
    return True


def ref_frame_len(self):
    return 8 + len(self.message)


def ref_is_ack_type(self):
    t = self.header.message_type
    return 65 <= t and t <= 191


def view_frame(self):
    h = self.header
    return (("from_node", h.from_node), ("to_node", h.to_node), ("frame_id", h.frame_id),
            ("message_type", h.message_type), ("reserved", h.reserved), ("message", bytes(self.message)))


def ens_unpack_msg_fresh(self, buffer, result):
    """the frame keeps a private copy: later changes of the caller's buffer cannot reach it"""
    return implies(result, is_fresh(self.message))


# ---- header construction: ids increase by 1 modulo 65536

def ref_header_init(self, to_node, message_type):
    pass


def ens_header_init(self, to_node, message_type, exc):
    return (exc is None and self.from_node == 0o7777 and self.reserved == 0
            and self.to_node == ite(to_node is None, 0, to_node & 0xFFF)
            and self.message_type == ite(message_type is None, 0, message_type & 0xFF))


# ---- lemmas over the reference codecs

def lemma_roundtrip(h, g):
    """parsing what pack() produced yields the same (wire-range) field values"""
    b = ref_header_pack(h)
    ok = ref_header_unpack(g, b)
    return (ok and g.from_node == h.from_node and g.to_node == h.to_node and g.frame_id == h.frame_id
            and g.message_type == h.message_type and g.reserved == h.reserved)


def req_wire12(h):
    return h.from_node < 4096 and h.to_node < 4096


def lemma_repack(b, g):
    """re-serialising a parsed header reproduces the received bytes when both addresses are
    12-bit (needed when a relay forwards a frame)"""
    ok = ref_header_unpack(g, b)
    return implies(ok and g.from_node < 4096 and g.to_node < 4096, ref_header_pack(g) == b[:8])


R = "spec.c11:"
STRUCT_POLICY = {
    "structs:RF24NetworkHeader.pack": "ref:" + R + "ref_header_pack",
    "structs:RF24NetworkHeader.unpack": "ref:" + R + "ref_header_unpack",
    "structs:RF24NetworkHeader.__len__": "inline",
}

CONTRACTS = [
    Contract("C11.header.pack", HDR + ".pack", {"self": header_schema(False)}, refines=R + "ref_header_pack",
             view=R + "view_header", ensures=[("len8", R + "ens_len8")], props=["C11"]),
    Contract("C11.header.pack.wire", HDR + ".pack", {"self": header_schema(True)}, refines=R + "ref_header_pack",
             view=R + "view_header", ensures=[("len8", R + "ens_len8")], props=["C11"]),
    Contract("C11.header.unpack", HDR + ".unpack", {"self": header_schema(False), "buffer": OneOf(Bytes(0, None), ByteArray(0, None))},
             refines=R + "ref_header_unpack", view=R + "view_header", props=["C11"]),
    Contract("C11.header.len", HDR + ".__len__", {"self": header_schema(False)}, refines=R + "ref_header_len",
             view=R + "view_header", props=["C11"]),
    Contract("C11.frame.pack", FRM + ".pack", {"self": frame_schema(False)}, refines=R + "ref_frame_pack",
             view=R + "view_frame", policy=STRUCT_POLICY, props=["C11"]),
    Contract("C11.frame.unpack", FRM + ".unpack", {"self": frame_schema(False), "buffer": OneOf(Bytes(0, None), ByteArray(0, None))},
             refines=R + "ref_frame_unpack", view=R + "view_frame", policy=STRUCT_POLICY,
             ensures=[("private_copy", R + "ens_unpack_msg_fresh")], props=["C11", "C12"]),
    Contract("C11.frame.len", FRM + ".__len__", {"self": frame_schema(False)}, refines=R + "ref_frame_len",
             view=R + "view_frame", props=["C11"]),
    Contract("C13.is_ack_type", FRM + ".is_ack_type", {"self": frame_schema(True)}, refines=R + "ref_is_ack_type",
             view=R + "view_frame", props=["C11", "C13"]),
]

LEMMAS = [
    Lemma("C11.lemma.roundtrip", {"h": header_schema(True), "g": header_schema(False)}, R + "lemma_roundtrip",
          requires=[R + "req_wire12"], props=["C11"]),
    Lemma("C11.lemma.repack", {"b": Bytes(0, None), "g": header_schema(False)}, R + "lemma_repack", props=["C11", "C05"]),
]
