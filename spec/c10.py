"""C10 -- FIFO and status accessors report the radio's true state (also the read()/any() part of
C01).  Every obligation starts from an ARBITRARY A-HW state (0..3 payloads per FIFO on any pipes,
of any widths, any latches), which subsumes every traffic history that can produce such a state."""
from pyvc.cdef import Contract
from pyvc.schema import Int, Bool, Const, Bytes, ByteArray, OneOf
from pyvc.specrt import implies, ite, is_fresh
from spec.rf24_state import rf24_schema, inv, view_cfg
from spec.c03 import PRIMS


def view_io(self):
    return view_cfg(self) + (("cached STATUS (_in[0])", self._in[0]),)


def _nop(self):
    """any SPI frame refreshes the cached STATUS with the value shifted out first"""
    self._in[0] = self._spi.hw.status()


def ref_update(self):
    _nop(self)
    return True


def ref_available(self):
    _nop(self)
    return self._spi.hw.rx_n > 0


def ref_any(self):
    hw = self._spi.hw
    _nop(self)
    has = hw.rx_n > 0
    dyn = (hw.reg[0x1D] & 4) != 0
    width = ite(dyn, hw.rx_len[0], hw.reg[0x11 + ite(has, hw.rx_pipe[0], 0)])
    return ite(has, width, 0)


def ref_read_default(self, length):
    """read(): exactly the head payload, popped; only RX_DR is cleared; None when empty"""
    hw = self._spi.hw
    n = ref_any(self)
    if length is not None:
        n = length
    if n == 0:
        return None
    d = hw.rx_data[0]
    ln = ite(hw.rx_n > 0, hw.rx_len[0], 0)
    cells = []
    for k in range(32):
        cells.append(ite(k < ln, d[k], 0))
    out = bytes(cells)[:n]
    has = hw.rx_n > 0
    hw.rx_pipe[0] = ite(has, hw.rx_pipe[1], hw.rx_pipe[0])
    hw.rx_len[0] = ite(has, hw.rx_len[1], hw.rx_len[0])
    hw.rx_data[0] = ite(has, hw.rx_data[1], hw.rx_data[0])
    hw.rx_pipe[1] = ite(has, hw.rx_pipe[2], hw.rx_pipe[1])
    hw.rx_len[1] = ite(has, hw.rx_len[2], hw.rx_len[1])
    hw.rx_data[1] = ite(has, hw.rx_data[2], hw.rx_data[1])
    hw.rx_n = ite(has, hw.rx_n - 1, hw.rx_n)
    self._in[0] = hw.status()           # STATUS shifted out by the flag-clearing frame
    hw.reg[7] = hw.reg[7] & 0x30         # clears RX_DR and nothing else
    return out


def req_read_len(self, length):
    """explicit lengths are covered for 1..32 (a whole static-width payload); partial reads that
    leave a payload in the FIFO are outside the A-HW model"""
    return length is None or (1 <= length and length <= 32)


def ens_read_fresh(result):
    return is_fresh(result)


def ens_read_is_head(self, old_self, length, result):
    """(C01) with length None the result is byte-for-byte the head payload"""
    hw = old_self._spi.hw
    if length is not None or result is None:
        return True
    dyn = (hw.reg[0x1D] & 4) != 0
    return implies(hw.rx_n > 0 and dyn, bytes(result) == hw.rx_data[0][:hw.rx_len[0]])


def ref_pipe(self):
    p = (self._in[0] >> 1) & 7
    if p <= 5:
        return p
    return None


def ref_tx_full(self):
    return (self._in[0] & 1) != 0


def ref_irq_dr(self):
    return (self._in[0] & 0x40) != 0


def ref_irq_ds(self):
    return (self._in[0] & 0x20) != 0


def ref_irq_df(self):
    return (self._in[0] & 0x10) != 0


def ens_status_decodes(self, old_self):
    """after update() the decoded attributes describe the radio: pipe of the head payload (None
    when empty), TX FIFO full, the three latched events"""
    hw = self._spi.hw
    s = self._in[0]
    p = (s >> 1) & 7
    return (implies(hw.rx_n > 0, p == hw.rx_pipe[0]) and implies(hw.rx_n == 0, p == 7)
            and ((s & 1) != 0) == (hw.tx_n >= 3)
            and (s & 0x70) == (hw.reg[7] & 0x70))


def ref_clear_status_flags(self, data_recv, data_sent, data_fail):
    hw = self._spi.hw
    self._in[0] = hw.status()
    m = ite(bool(data_recv), 0x40, 0) | ite(bool(data_sent), 0x20, 0) | ite(bool(data_fail), 0x10, 0)
    hw.reg[7] = hw.reg[7] & ~m & 0xFF


def ref_flush_rx(self):
    hw = self._spi.hw
    self._in[0] = hw.status()
    hw.rx_n = 0


def ref_flush_tx(self):
    hw = self._spi.hw
    self._in[0] = hw.status()
    hw.tx_n = 0


def ref_fifo(self, about_tx, check_empty):
    hw = self._spi.hw
    self._in[0] = hw.status()
    n = ite(bool(about_tx), hw.tx_n, hw.rx_n)
    if check_empty is None:
        return ite(n == 0, 1, ite(n >= 3, 2, 0))
    return ite(bool(check_empty), n == 0, n >= 3)


def ref_last_tx_arc(self):
    self._in[0] = self._spi.hw.status()
    return self._spi.hw.reg[8] & 0x0F


def ref_rpd(self):
    self._in[0] = self._spi.hw.status()
    return self._spi.hw.reg[9] != 0


def irq_asserted(hw):
    """A-HW rule 4: the (active-low) IRQ line is asserted iff an unmasked latch is set"""
    c = hw.reg[0]
    s = hw.reg[7]
    return (((s & 0x40) != 0 and (c & 0x40) == 0) or ((s & 0x20) != 0 and (c & 0x20) == 0)
            or ((s & 0x10) != 0 and (c & 0x10) == 0))


def ens_irq_line(self, data_recv, data_sent, data_fail):
    """interrupt_config(): the IRQ line asserts for exactly the enabled events, whatever is latched"""
    hw = self._spi.hw
    s = hw.reg[7]
    want = (((s & 0x40) != 0 and bool(data_recv)) or ((s & 0x20) != 0 and bool(data_sent))
            or ((s & 0x10) != 0 and bool(data_fail)))
    return irq_asserted(hw) == want


R = "spec.c10:"
ST = "spec.rf24_state:"
B3 = {"data_recv": OneOf(Bool(), Int()), "data_sent": OneOf(Bool(), Int()), "data_fail": OneOf(Bool(), Int())}


def C(name, target, args, ref, requires=(), ensures=(), extra_policy=None, props=("C10",)):
    state = {"self": rf24_schema(p0=Const(None))}
    state.update(args)
    pol = dict(PRIMS)
    pol.update(extra_policy or {})
    return Contract("C10." + name, target, state, requires=[ST + "inv"] + list(requires), refines=ref,
                    view=R + "view_io", ensures=[("inv", ST + "post_inv")] + list(ensures), policy=pol, props=list(props))


ACC = {"rf24:RF24.update": "ref:" + R + "ref_update", "rf24:RF24.any": "ref:" + R + "ref_any",
       "rf24:RF24.clear_status_flags": "ref:" + R + "ref_clear_status_flags"}

CONTRACTS = [
    C("update", "rf24:RF24.update", {}, R + "ref_update", ensures=[("decodes", R + "ens_status_decodes")]),
    C("available", "rf24:RF24.available", {}, R + "ref_available", extra_policy=ACC),
    C("any", "rf24:RF24.any", {}, R + "ref_any", props=("C10", "C01")),
    C("read", "rf24:RF24.read", {"length": OneOf(Const(None), Int())}, R + "ref_read_default", requires=[R + "req_read_len"],
      ensures=[("fresh", R + "ens_read_fresh"), ("is_head", R + "ens_read_is_head")], extra_policy=ACC, props=("C10", "C01")),
    C("pipe", "rf24:RF24.pipe.getter", {}, R + "ref_pipe"),
    C("tx_full", "rf24:RF24.tx_full.getter", {}, R + "ref_tx_full"),
    C("irq_dr", "rf24:RF24.irq_dr.getter", {}, R + "ref_irq_dr"),
    C("irq_ds", "rf24:RF24.irq_ds.getter", {}, R + "ref_irq_ds"),
    C("irq_df", "rf24:RF24.irq_df.getter", {}, R + "ref_irq_df"),
    C("clear_status_flags", "rf24:RF24.clear_status_flags", B3, R + "ref_clear_status_flags"),
    C("flush_rx", "rf24:RF24.flush_rx", {}, R + "ref_flush_rx"),
    C("flush_tx", "rf24:RF24.flush_tx", {}, R + "ref_flush_tx"),
    C("fifo", "rf24:RF24.fifo", {"about_tx": OneOf(Bool(), Int()), "check_empty": OneOf(Const(None), Bool(), Int())}, R + "ref_fifo"),
    C("last_tx_arc", "rf24:RF24.last_tx_arc.getter", {}, R + "ref_last_tx_arc"),
    C("rpd", "rf24:RF24.rpd.getter", {}, R + "ref_rpd"),
    C("interrupt_config.irq", "rf24:RF24.interrupt_config", B3, None, ensures=[("irq_line", R + "ens_irq_line")]),
]
