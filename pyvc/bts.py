"""Byte-sequence terms: (index map, length) with Python's slice/concat/store semantics.

A term with a concrete length is always *materialised* as a list of cells (each a Python int or
an SInt in [0,255]); a term with a symbolic length is a lazy index function over z3 arrays.  z3's
native Seq theory is deliberately not used (it went `unknown` on pad/truncate, DESIGN 2.9).
"""
import z3
from . import sym
from .sym import SInt, SBool, Unsupported, bv, bvv, mk, cmp, b_and, b_or, b_not, i_ite, is_conc

MATERIALISE_MAX = 4096
BYTE = z3.BitVecSort(8)
IDX = z3.BitVecSort(64)


def cell_from_bv8(e8):
    if z3.is_bv_value(e8):
        return e8.as_long()
    return SInt(z3.ZeroExt(56, e8), 0, 255)


def cell_to_bv8(c):
    if isinstance(c, bool):
        c = int(c)
    if isinstance(c, int):
        return z3.BitVecVal(c & 0xFF, 8)
    e = c.e
    # ZeroExt(56, x) -> x
    if z3.is_app_of(e, z3.Z3_OP_ZERO_EXT) and e.arg(0).size() == 8:
        return e.arg(0)
    return z3.Extract(7, 0, e)


class BT:
    """byte-sequence term"""
    __slots__ = ("length", "cells", "fn", "maxlen", "_memo")

    def __init__(self, length, cells=None, fn=None, maxlen=None):
        self.length = length
        self.cells = cells
        self.fn = fn
        self.maxlen = maxlen
        self._memo = None
        if cells is not None:
            self.length = len(cells)
            self.maxlen = len(cells)

    def conc_len(self):
        return self.cells is not None

    def get(self, i):
        """cell at index i (0 <= i < length is the caller's business)"""
        if self.cells is not None:
            if is_conc(i):
                # out-of-range reads only occur in dead ite branches of lazy terms
                return self.cells[i] if 0 <= i < len(self.cells) else 0
            res = None
            n = len(self.cells)
            if n == 0:
                return 0
            res = self.cells[n - 1]
            for k in range(n - 2, -1, -1):
                res = i_ite(cmp("==", i, k), self.cells[k], res)
            return res
        # lazy term: memoise per index (terms are immutable), keyed by value / z3 ast id
        key = i if is_conc(i) else ("z", bv(i).get_id())
        m = self._memo
        if m is None:
            m = self._memo = {}
        elif key in m:
            return m[key][1]
        v = self.fn(i)
        m[key] = (i, v)   # keep i alive so the ast id cannot be reused
        return v


def from_cells(cells):
    return BT(len(cells), cells=list(cells))


def from_bytes(b):
    return BT(len(b), cells=list(b))


def lazy(length, fn, maxlen=None):
    if not is_conc(length):
        e = z3.simplify(length.e)
        if z3.is_bv_value(e):
            length = e.as_signed_long()
    if is_conc(length):
        if length <= MATERIALISE_MAX:
            return BT(length, cells=[fn(k) for k in range(length)])
        raise Unsupported("byte string longer than %d" % MATERIALISE_MAX)
    lo, hi = sym.rng(length)
    if maxlen is None or hi < maxlen:
        maxlen = hi if hi < (1 << 40) else maxlen
    return BT(length, fn=fn, maxlen=maxlen)


def from_array(arr, length, maxlen=None):
    return lazy(length, lambda i: cell_from_bv8(z3.Select(arr, bv(i))), maxlen)


def blen(t):
    return t.length


def zeros(n):
    return lazy(n, lambda i: 0)


def _clamp_index(i, n):
    """Python slice-bound normalisation: negative wraps once, then clamp to [0, n]."""
    if i is None:
        return None
    neg_i = cmp("<", i, 0)
    wrapped = i_ite(neg_i, sym.add(i, n), i)
    return sym.imax(0, sym.imin(wrapped, n))


def bslice(t, lo, hi):
    n = t.length
    lo = 0 if lo is None else _clamp_index(lo, n)
    hi = n if hi is None else _clamp_index(hi, n)
    ln = sym.imax(0, sym.sub(hi, lo))
    if t.cells is not None and is_conc(lo) and is_conc(hi):
        return from_cells(t.cells[lo:hi])
    return lazy(ln, lambda i: t.get(sym.add(i, lo)), t.maxlen)


def concat(a, b):
    if a.cells is not None and b.cells is not None:
        return from_cells(a.cells + b.cells)
    la = a.length
    ml = None
    if a.maxlen is not None and b.maxlen is not None:
        ml = a.maxlen + b.maxlen
    return lazy(sym.add(la, b.length),
                lambda i: i_ite(cmp("<", i, la), a.get(i), b.get(sym.sub(i, la))), ml)


def repeat(t, n):
    n = sym.imax(0, n)
    if t.cells is not None and is_conc(n):
        return from_cells(t.cells * n)
    if t.cells is not None and len(t.cells) == 1:
        c = t.cells[0]
        return lazy(n, lambda i: c)
    raise Unsupported("repeat of a multi-byte string by a symbolic count")


def store(t, idx, val):
    if t.cells is not None and is_conc(idx):
        c = list(t.cells)
        c[idx] = val
        return from_cells(c)
    if t.cells is not None:
        return from_cells([i_ite(cmp("==", idx, k), val, c) for k, c in enumerate(t.cells)])
    return lazy(t.length, lambda i: i_ite(cmp("==", i, idx), val, t.get(i)), t.maxlen)


def slice_assign(t, lo, hi, src):
    """t[lo:hi] = src  (bytearray semantics: length may change)"""
    n = t.length
    lo = 0 if lo is None else _clamp_index(lo, n)
    hi = n if hi is None else _clamp_index(hi, n)
    hi = sym.imax(lo, hi)
    ls = src.length
    if t.cells is not None and src.cells is not None and is_conc(lo) and is_conc(hi):
        return from_cells(t.cells[:lo] + src.cells + t.cells[hi:])
    new_len = sym.add(sym.sub(n, sym.sub(hi, lo)), ls)
    end = sym.add(lo, ls)
    shift = sym.sub(hi, end)

    def fn(i):
        return i_ite(cmp("<", i, lo), t.get(i),
                     i_ite(cmp("<", i, end), src.get(sym.sub(i, lo)), t.get(sym.add(i, shift))))
    ml = None
    if t.maxlen is not None and src.maxlen is not None:
        ml = t.maxlen + src.maxlen
    return lazy(new_len, fn, ml)


def ite(c, a, b):
    """cell-wise ite of two terms (lengths may differ)"""
    if isinstance(c, bool):
        return a if c else b
    ln = i_ite(c, a.length, b.length)
    if a.cells is not None and b.cells is not None and len(a.cells) == len(b.cells):
        return from_cells([i_ite(c, x, y) for x, y in zip(a.cells, b.cells)])
    ml = None
    if a.maxlen is not None and b.maxlen is not None:
        ml = max(a.maxlen, b.maxlen)
    return lazy(ln, lambda i: i_ite(c, a.get(i), b.get(i)), ml)


_sk = [0]
EXPAND_MAX = 160


def eq(a, b):
    """value equality as a (possibly symbolic) bool"""
    if a is b:
        return True
    if a.cells is not None and b.cells is not None:
        if len(a.cells) != len(b.cells):
            return False
        return b_and(*[cmp("==", x, y) for x, y in zip(a.cells, b.cells)])
    leq = cmp("==", a.length, b.length)
    if leq is False:
        return False
    bound = None
    for t in (a, b):
        if t.cells is not None:
            bound = len(t.cells) if bound is None else min(bound, len(t.cells))
        elif t.maxlen is not None:
            bound = t.maxlen if bound is None else min(bound, t.maxlen)
    if bound is not None and bound <= EXPAND_MAX:
        parts = [leq]
        for k in range(bound):
            inside = cmp("<", k, a.length)
            if inside is False:
                break
            parts.append(sym.b_implies(inside, cmp("==", _safe_get(a, k), _safe_get(b, k))))
        return b_and(*parts)
    _sk[0] += 1
    i = z3.BitVec("eqi!%d" % _sk[0], 64)
    # the bound variable only matters below the length (guard), so it inherits the length's range
    si = SInt(i, 0, max(0, sym.rng(a.length)[1] - 1))
    body = sym.b_implies(b_and(cmp("<=", 0, si), cmp("<", si, a.length)), cmp("==", a.get(si), b.get(si)))
    q = z3.ForAll([i], sym.bz(body)) if not isinstance(body, bool) else z3.BoolVal(body)
    return b_and(leq, sym.mkb(q))


def _safe_get(t, k):
    if t.cells is not None:
        return t.cells[k] if k < len(t.cells) else 0
    return t.get(k)
