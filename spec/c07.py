"""C07 -- after any network operation the node listens again on all its addresses.

Predicates (spec/net_state.py): listening(self) is the statement of the property over the radio's
registers; radio_home(self) is what every transmit helper keeps so that the tail of _write()
(`listen = True`, `auto_ack = 0x3E`) re-establishes listening.  Mutual recursion
(_write <-> _net_update) is by contract: abs_write / abs_net_update assert the callee's
precondition at the call site, havoc the callee's footprint and assume its postcondition; each
real function is in turn proved to satisfy exactly that contract (post + frame)."""
from pyvc.cdef import Contract, LoopSpec
from pyvc.schema import Int, Bool, Const, Bytes, ByteArray, Obj, OneOf
from pyvc.specrt import implies, ite, oracle_int, require, assume, clock_now
from spec.rf24_state import inv
from spec.net_ref import valid_node, valid_address, level, level_addr
from spec.net_state import net_schema, net_inv, listening, node_ok, pa, NETPOL
from spec.c11 import frame_schema


def radio_home(self):
    """everything of `listening` that a transmission must not disturb: pipes 1-5 and their
    enable bits, dynamic payloads, auto-ack on 1-5 (pipe 0 may be on for unicast), and the
    remembered pipe-0 reading address that `listen = True` writes back"""
    r = self._rf24
    hw = r._spi.hw
    g = hw.reg
    a = self._addr
    p0a = pa(self, a, 0)
    p0b = pa(self, level_addr(self._net_lvl), 0)
    return (inv(r) and (g[0] & 2) != 0 and g[2] == 0x3F and (g[1] == 0x3E or g[1] == 0x3F)
            and g[0x1C] == 0x3F and (g[0x1D] & 4) != 0
            and bytes(hw.addr1) == pa(self, a, 1)
            and g[0x0C] == pa(self, a, 2)[0] and g[0x0D] == pa(self, a, 3)[0]
            and g[0x0E] == pa(self, a, 4)[0] and g[0x0F] == pa(self, a, 5)[0]
            and r._pipe0_read_addr is not None
            and (bytes(r._pipe0_read_addr) == p0a or bytes(r._pipe0_read_addr) == p0b)
            and implies((g[0] & 1) != 0, hw.ce) and hw.ce_log == 0)


def home_ok(self):
    return net_inv(self) and radio_home(self)


# ---- footprints ---------------------------------------------------------------------------

def havoc_radio_io(self):
    """what send()/resend()/read() may change: FIFOs, latches, CE, cached STATUS, air log"""
    r = self._rf24
    hw = r._spi.hw
    r._in[0] = oracle_int(0, 255)
    hw.tx_n = oracle_int(0, 3)
    hw.rx_n = min(hw.rx_n, oracle_int(0, 3))
    hw.reg[7] = oracle_int(0, 7) * 16
    hw.reg[8] = oracle_int(0, 255)
    hw.air_n = oracle_int(0, 1 << 40)
    hw.air_retx = oracle_int(0, 1 << 40)


def havoc_tx_cfg(self):
    """what switching to TX and opening the TX pipe may change (and nothing else)"""
    r = self._rf24
    hw = r._spi.hw
    role = oracle_int(0, 1)
    hw.reg[0] = (hw.reg[0] & 0xFC) | 2 | role
    r._config = hw.reg[0]
    hw.ce = oracle_int(0, 1) == 1
    hw.reg[1] = 0x3E + oracle_int(0, 1)
    r._aa = hw.reg[1]
    for k in range(5):
        hw.addr0[k] = oracle_int(0, 255)
        r._pipes[0][k] = hw.addr0[k]
        hw.txaddr[k] = oracle_int(0, 255)
        r._tx_address[k] = hw.txaddr[k]


def fixed_cfg(self):
    """complement of the two footprints: must be unchanged by every transmit helper"""
    r = self._rf24
    hw = r._spi.hw
    g = hw.reg
    return (g[2], g[3], g[4], g[5], g[6], g[0x0C], g[0x0D], g[0x0E], g[0x0F], g[0x11], g[0x12], g[0x13], g[0x14],
            g[0x15], g[0x16], g[0x1C], g[0x1D], bytes(hw.addr1), r._pipe0_read_addr,
            self._addr, self._net_lvl, self._mask, self._mask_inv, self._parent, self._parent_pipe,
            bytes(self.address_prefix), bytes(self.address_suffix), self.allow_multicast)


def fixed_cfg_aa(self):
    r = self._rf24
    hw = r._spi.hw
    return fixed_cfg(self) + (hw.reg[0], hw.reg[1], bytes(hw.addr0), hw.ce)


def io_fixed(self):
    """complement of havoc_radio_io alone (used for the polling/standby loops)"""
    r = self._rf24
    hw = r._spi.hw
    g = hw.reg
    return fixed_cfg(self) + (g[0], g[1], bytes(hw.addr0), bytes(hw.txaddr))


# ---- _tx_standby ----------------------------------------------------------------------------

def ds_latched(self):
    """TX_DS: the radio reports the frame at the head of its TX FIFO as sent (acknowledged where an ACK is due)"""
    return (self._rf24._spi.hw.reg[7] & 0x20) != 0


def req_tx_standby(self, delta_time):
    """called for a frame that has just FAILED (TX mode, no TX_DS latched)"""
    hw = self._rf24._spi.hw
    return home_ok(self) and (hw.reg[0] & 3) == 2 and 0 <= delta_time and delta_time <= 100000 and not ds_latched(self)


# ---- termination measures (LoopSpec.variant; rule and A-CLK-PROGRESS in pyvc/loops.py) ---------

def var_deadline(timeout):
    """time left until a deadline held in the local `timeout` (ns)"""
    return timeout - clock_now()


def var_rx_deadline(rx_timeout):
    return rx_timeout - clock_now()


def var_retries(retries):
    return retries


def var_rx_fifo(self):
    """_net_update's receive loop: payloads still waiting in the RX FIFO.  In this model the traffic of
    one call is what the FIFO holds (radio io only ever shrinks it: havoc_radio_io), so every turn
    that goes round again has popped one -- A-RX-FIN in its strongest form: nothing new arrives
    while update() runs"""
    return self._rf24._spi.hw.rx_n


def inv_tx_standby(self, result):
    hw = self._rf24._spi.hw
    return home_ok(self) and (hw.reg[0] & 3) == 2 and isinstance(result, bool) and result == ds_latched(self)


def ens_tx_standby(self, old_self, result, exc):
    return exc is None and isinstance(result, bool) and home_ok(self) and io_fixed(self) == io_fixed(old_self)


def ens_tx_standby_fate(self, result, exc):
    """True iff a retransmission was accepted (seed s78: a caller that drops this value reports a delivered frame as failed)"""
    return exc is None and result == ds_latched(self)


def abs_tx_standby(self, delta_time):
    hw = self._rf24._spi.hw
    require(home_ok(self) and (hw.reg[0] & 3) == 2 and not ds_latched(self), "_tx_standby: TX mode, radio_home, the frame has just failed")
    havoc_radio_io(self)
    hw.ce = oracle_int(0, 1) == 1
    assume(home_ok(self))
    ok = oracle_int(0, 1) == 1
    assume(ok == ds_latched(self))        # C07._tx_standby.fate
    return ok


# ---- _write_to_pipe ---------------------------------------------------------------------------

def req_wtp(self, to_node, to_pipe, is_multicast):
    return (home_ok(self) and (valid_address(to_node) or (to_node == 0o10000 and to_pipe == 0 and bool(self.allow_multicast)))
            and 0 <= to_pipe and to_pipe <= 5
            and len(self.frame_buf.message) <= self.max_message_length and self.max_message_length <= 6000)


def inv_frag_loop(self, k_, total, msg_len, msg_t):
    hw = self._rf24._spi.hw
    return (home_ok(self) and (hw.reg[0] & 3) == 2 and msg_len == len(self.frame_buf.message)
            and 24 * (total - 1) < msg_len and msg_len <= 24 * total and msg_len > 24)


def inv_retry_loop(self, result, retries):
    hw = self._rf24._spi.hw
    return (home_ok(self) and (hw.reg[0] & 3) == 2 and 0 <= retries and retries <= 3
            and isinstance(result, bool) and result == ds_latched(self))


def havoc_frag(self):
    havoc_radio_io(self)
    hw = self._rf24._spi.hw
    hw.ce = oracle_int(0, 1) == 1
    h = self.frame_buf.header
    h.message_type = oracle_int(0, 255)
    h.reserved = oracle_int(0, 255)
    # the ghost air log: every fragment already sent went through send()
    hw.air_aa = oracle_int(0, 1)
    hw.air_addr = oracle_bytes(5, 5)
    hw.air_first_addr = oracle_bytes(5, 5)
    hw.air_first = oracle_bytes(0, 32)
    hw.air_last = oracle_bytes(0, 32)


def frag_fixed(self):
    h = self.frame_buf.header
    return io_fixed(self) + (h.from_node, h.to_node, h.frame_id, bytes(self.frame_buf.message))


def ens_wtp(self, old_self, result, exc, to_node):
    return exc is None and home_ok(self)


def ens_wtp_fixed(self, old_self):
    return fixed_cfg(self) == fixed_cfg(old_self)


def ens_wtp_header(self, old_self, to_node, is_multicast):
    """after sending, the caller's header shows its original type again (C11) and nothing but
    `reserved` differs (a loop-back enqueue may retype an external-data fragment by reference)"""
    h = self.frame_buf.header
    oh = old_self.frame_buf.header
    return (implies(to_node != old_self._addr or bool(is_multicast), h.message_type == oh.message_type)
            and h.from_node == oh.from_node and h.to_node == oh.to_node
            and h.frame_id == oh.frame_id and bytes(self.frame_buf.message) == bytes(old_self.frame_buf.message))


def ens_wtp_loopback(self, old_self, to_node, is_multicast):
    """a frame for this node itself is queued, never transmitted: the radio is not touched"""
    return implies(to_node == old_self._addr and not bool(is_multicast), fixed_all_radio(self) == fixed_all_radio(old_self))


def fixed_all_radio(self):
    r = self._rf24
    hw = r._spi.hw
    return io_fixed(self) + (hw.ce, hw.tx_n, hw.rx_n, hw.reg[7], hw.air_n)


def abs_write_to_pipe(self, to_node, to_pipe, is_multicast):
    require(home_ok(self) and (valid_address(to_node) or (to_node == 0o10000 and to_pipe == 0 and bool(self.allow_multicast)))
            and 0 <= to_pipe and to_pipe <= 5, "_write_to_pipe: radio_home, valid target")
    if to_node == self._addr and not bool(is_multicast):
        return self.queue.enqueue(self.frame_buf)
    havoc_radio_io(self)
    havoc_tx_cfg(self)
    self.frame_buf.header.reserved = oracle_int(0, 255)
    assume(home_ok(self))
    assume(implies(bool(is_multicast), self._rf24._spi.hw.reg[1] == 0x3E))
    return oracle_int(0, 1) == 1


def ens_wtp_aa(self, old_self, to_node, is_multicast):
    """a multicast is transmitted with auto-ack off on every pipe that could acknowledge it"""
    return implies(bool(is_multicast), self._rf24._spi.hw.reg[1] == 0x3E)


# ---- _write / _net_update ---------------------------------------------------------------------

def target_ok(self, a, send_type):
    """a valid address, or -- for the multicast relay of a level-4 node only -- the (empty) level 5"""
    return valid_address(a) or (a == 0o10000 and send_type == 4 and bool(self.allow_multicast))


def req_write(self, write_direct, send_type):
    return (node_ok(self) and target_ok(self, write_direct, send_type) and 0 <= send_type and send_type <= 4
            and valid_address(self.frame_buf.header.from_node)
            and len(self.frame_buf.message) <= self.max_message_length)


def ens_node_ok(self, old_self, exc):
    return exc is None and node_ok(self) and self._addr == old_self._addr


def ens_l_mode(self):
    hw = self._rf24._spi.hw
    return (hw.reg[0] & 3) == 3 and hw.ce and hw.ce_log == 0


def ens_l_aa(self):
    return self._rf24._spi.hw.reg[1] == 0x3E


def ens_l_p0(self):
    r = self._rf24
    hw = r._spi.hw
    return r._pipe0_read_addr is not None and bytes(r._pipe0_read_addr) == bytes(hw.addr0)


def ens_l_home(self):
    return home_ok(self)


DIAG = [("l_mode", "spec.c07:ens_l_mode"), ("l_aa", "spec.c07:ens_l_aa"), ("l_p0", "spec.c07:ens_l_p0"), ("l_home", "spec.c07:ens_l_home")]


def inv_ack_wait(self, result):
    return node_ok(self)


def havoc_update(self):
    """footprint of _net_update(): traffic state, the frame buffer, the queue"""
    havoc_radio_io(self)
    h = self.frame_buf.header
    h.from_node = oracle_int(0, 0xFFFF)
    h.to_node = oracle_int(0, 0xFFFF)
    h.frame_id = oracle_int(0, 0xFFFF)
    h.message_type = oracle_int(0, 255)
    h.reserved = oracle_int(0, 255)
    self.frame_buf.message = oracle_bytes(0, 24)
    self.queue.n = oracle_int(0, 1000)


def oracle_bytes(lo, hi):
    n = oracle_int(lo, hi)
    cells = []
    for k in range(hi):
        cells.append(oracle_int(0, 255))
    return bytes(cells)[:n]


def frame_valid_if(self, t):
    """a reported message type belongs to a frame that passed validation and is still in
    frame_buf (a discarded frame never overwrites it)"""
    h = self.frame_buf.header
    return implies(t != 0, valid_address(h.from_node) and valid_address(h.to_node)
                   and implies(t >= 192, h.message_type == t))


def inv_update_loop(self, ret_val):
    return req_update(self) and 0 <= ret_val and ret_val <= 255 and frame_valid_if(self, ret_val)


def ens_update_frame(self, result, exc):
    return exc is None and 0 <= result and result <= 255 and frame_valid_if(self, result)


def havoc_update_loop(self):
    """one arbitrary turn of `while True`: the RX FIFO head is an arbitrary received payload"""
    havoc_update(self)
    hw = self._rf24._spi.hw
    hw.rx_n = oracle_int(0, 3)
    for j in range(3):
        hw.rx_pipe[j] = oracle_int(0, 5)
        hw.rx_len[j] = oracle_int(1, 32)
        cells = []
        for k in range(32):
            cells.append(oracle_int(0, 255))
        hw.rx_data[j] = bytes(cells)


def abs_net_update(self):
    require(node_ok(self), "_net_update: node listening")
    havoc_update(self)
    assume(node_ok(self))
    t = oracle_int(0, 255)
    assume(frame_valid_if(self, t))
    return t


def abs_write(self, write_direct, send_type):
    require(node_ok(self) and target_ok(self, write_direct, send_type), "_write: node listening, valid target")
    h = self.frame_buf.header
    acky = 65 <= h.message_type and h.message_type <= 191 and (send_type == 0 or send_type == 3)
    havoc_radio_io(self)
    if acky:
        # an acknowledgeable type may make _write() wait for the NETWORK_ACK; every frame received
        # meanwhile is unpacked into frame_buf (even one that fails validation afterwards)
        havoc_update(self)
    if h.message_type == 150 and h.reserved == 131:
        h.message_type = oracle_int(0, 255)       # looped-back external-data fragment: retyped by the queue
    if send_type == 1:
        # a routed frame can be followed by a NETWORK_ACK, which reuses the frame buffer
        h.message_type = oracle_int(0, 255)
        h.to_node = oracle_int(0, 0xFFFF)
    h.reserved = oracle_int(0, 255)
    self.queue.n = oracle_int(0, 1000)
    assume(node_ok(self))
    return oracle_int(0, 1) == 1


def ens_write_hdr(self, old_self, send_type):
    """for a type that is never acknowledged at network level _write leaves the caller's frame
    alone: origin, id and message; type and destination too unless it is a routed frame"""
    h = self.frame_buf.header
    oh = old_self.frame_buf.header
    acky = 65 <= oh.message_type and oh.message_type <= 191 and (send_type == 0 or send_type == 3)
    ext = oh.message_type == 150 and oh.reserved == 131   # external-data fragment looped back: retyped by reference
    return implies(not acky and not ext, h.from_node == oh.from_node and h.frame_id == oh.frame_id
                   and bytes(self.frame_buf.message) == bytes(old_self.frame_buf.message)
                   and implies(send_type != 1, h.message_type == oh.message_type and h.to_node == oh.to_node))


def req_update(self):
    return node_ok(self) and self.max_message_length >= 24 and self.max_message_length <= 6000


def req_handler(self, msg_t):
    h = self.frame_buf.header
    return (req_update(self) and valid_address(h.to_node) and valid_address(h.from_node)
            and msg_t == h.message_type and len(self.frame_buf.message) <= 24)


def req_handler_this(self, msg_t):
    return req_handler(self, msg_t) and self.frame_buf.header.to_node == self._addr


def req_handler_other(self, msg_t):
    return req_handler(self, msg_t) and self.frame_buf.header.to_node != self._addr


# ---- public entry points --------------------------------------------------------------------

def req_begin(self, n_addr):
    r = self._rf24
    g = r._spi.hw.reg
    return valid_node(n_addr) and inv(r) and g[0x1C] == 0x3F and (g[0x1D] & 4) != 0 and r._spi.hw.ce_log == 0


def ens_begin(self, n_addr, exc):
    return exc is None and node_ok(self) and self._addr == n_addr and self._net_lvl == level(n_addr)


def abs_begin(self, n_addr):
    require(req_begin(self, n_addr), "_begin: valid node address, radio invariant, dynamic payloads on (C07.begin's precondition)")
    begin_effects(self, n_addr)


def begin_effects(self, n_addr):
    """footprint + assumed post of _begin (its contract is C07.begin)"""
    begin_havoc(self, n_addr)
    assume(node_ok(self) and self._net_lvl == level(n_addr))


def begin_havoc(self, n_addr):
    """everything _begin() writes, scrambled (no assumption made here)"""
    havoc_radio_io(self)
    havoc_tx_cfg(self)
    r = self._rf24
    hw = r._spi.hw
    for k in range(5):
        hw.addr1[k] = oracle_int(0, 255)
        r._pipes[1][k] = hw.addr1[k]
    for i in range(2, 6):
        hw.reg[0x0A + i] = oracle_int(0, 255)
        r._pipes[i] = hw.reg[0x0A + i]
    hw.reg[2] = 0x3F
    r._open_pipes = 0x3F
    hw.reg[4] = oracle_int(0, 255)
    r._retry_setup = hw.reg[4]
    r._pipe0_read_addr = bytearray(hw.addr0)
    self._addr = n_addr
    self._net_lvl = oracle_int(0, 4)
    self._mask = oracle_int(0, 0xFFFF)
    self._mask_inv = oracle_int(0, 0xFFFF)
    self._parent = oracle_int(0, 4095)
    self._parent_pipe = oracle_int(0, 7)


def req_node(self):
    return req_update(self)


def req_node_addr(self, val):
    """a reserved multicast address is not a node address (assigning one is outside the claim)"""
    return req_update(self) and (val is None or valid_node(val) or not valid_address(val))


def req_node_addr_any_state(self, val):
    """the assignment must re-establish the listening state from ANY radio state the object can be
    in (TX mode, powered down, prefix/suffix changed since): only _begin's own precondition"""
    r = self._rf24
    g = r._spi.hw.reg
    return (inv(r) and g[0x1C] == 0x3F and (g[0x1D] & 4) != 0 and r._spi.hw.ce_log == 0
            and self.max_message_length >= 24 and self.max_message_length <= 6000
            and (val is None or valid_node(val) or not valid_address(val)))


def ens_node_addr(self, old_self, val, exc):
    """a valid address: the node listens on it (whatever the radio was doing before, also when the
    address is the one it already had); anything else: rejected, nothing changes"""
    if exc is not None:
        return False
    if val is not None and valid_node(val):
        return node_ok(self) and self._addr == val
    return self._addr == old_self._addr and implies(node_ok(old_self), node_ok(self))


def req_mc_level(self, lvl):
    return req_update(self)


def ens_mc_level(self, old_self, lvl, exc):
    want = max(0, min(4, lvl))
    return exc is None and node_ok(self) and self._net_lvl == want and self._addr == old_self._addr


def req_multicast(self, message, message_type, level):
    return req_update(self) and 0 <= message_type and message_type <= 255


def req_net_write(self, frame, traffic_direct):
    return req_update(self) and (traffic_direct == 0o70 or valid_address(traffic_direct))


R = "spec.c07:"
NS = "spec.net_state:"
POL = dict(NETPOL)
POL["mixins:NetworkMixin._logi_2_phys"] = "inline"
POL_ABS = dict(POL)
POL_ABS.update({
    "mixins:NetworkMixin._tx_standby": "ref:" + R + "abs_tx_standby",
    "mixins:NetworkMixin._write_to_pipe": "ref:" + R + "abs_write_to_pipe",
    "mixins:NetworkMixin._net_update": "ref:" + R + "abs_net_update",
})
POL_UPD = dict(POL)
POL_UPD.update({
    "mixins:NetworkMixin._write": "ref:" + R + "abs_write",
    "mixins:NetworkMixin._handle_frame_for_this_node": "inline",
    "mixins:NetworkMixin._handle_frame_for_other_node": "inline",
})
POL_PUB = dict(POL)
POL_PUB.update({
    "mixins:NetworkMixin._write": "ref:" + R + "abs_write",
    "mixins:NetworkMixin._net_update": "ref:" + R + "abs_net_update",
    "mixins:NetworkMixin._begin": "ref:" + R + "abs_begin",
    "rf24_network:RF24Network._pre_write": "inline", "rf24_network:RF24Network.write": "inline",
})

M = "mixins:NetworkMixin."
LOOPS_WTP = {
    (M + "_write_to_pipe", 0): LoopSpec(R + "inv_frag_loop", havoc=[R + "havoc_frag"], frame=R + "frag_fixed"),
    (M + "_write_to_pipe", 1): LoopSpec(R + "inv_retry_loop", havoc=[R + "havoc_radio_io_ce"], frame=R + "io_fixed_hdr", variant=R + "var_retries"),
}


def havoc_radio_io_ce(self):
    havoc_radio_io(self)
    self._rf24._spi.hw.ce = oracle_int(0, 1) == 1


def io_fixed_hdr(self):
    h = self.frame_buf.header
    return io_fixed(self) + (h.from_node, h.to_node, h.frame_id, h.message_type, h.reserved, bytes(self.frame_buf.message))


FRAME_ARG = frame_schema(True, 6000)
CONTRACTS = [
    Contract("C07._begin", M + "_begin", {"self": net_schema(), "n_addr": Int(0, 4095)},
             requires=[R + "req_begin"], ensures=[("listening", R + "ens_begin")], raises=(), policy=POL, props=["C07"]),
    Contract("C07._tx_standby", M + "_tx_standby", {"self": net_schema(), "delta_time": Int(0, 100000)},
             requires=[R + "req_tx_standby"], ensures=[("home", R + "ens_tx_standby"), ("fate", R + "ens_tx_standby_fate")], raises=(), policy=POL,
             loops={(M + "_tx_standby", 0): LoopSpec(R + "inv_tx_standby", havoc=[R + "havoc_radio_io_ce"], frame=R + "io_fixed_hdr", variant=R + "var_deadline")},
             props=["C07", "C15"]),
    Contract("C07._write_to_pipe", M + "_write_to_pipe",
             {"self": net_schema(), "to_node": Int(0, 4095), "to_pipe": Int(0, 5), "is_multicast": Bool()},
             requires=[R + "req_wtp"], ensures=[("home", R + "ens_wtp"), ("fixed", R + "ens_wtp_fixed"), ("header", R + "ens_wtp_header"),
                                                ("loopback", R + "ens_wtp_loopback"), ("mc_no_ack", R + "ens_wtp_aa")], raises=(),
             policy=dict(POL, **{M + "_tx_standby": "ref:" + R + "abs_tx_standby"}), loops=LOOPS_WTP, props=["C07", "C15", "C11"], replayable=False),
    Contract("C07._write", M + "_write", {"self": net_schema(), "write_direct": Int(0, 4095), "send_type": Int(0, 4)},
             requires=[R + "req_write"], ensures=DIAG + [("listening", R + "ens_node_ok"), ("header", R + "ens_write_hdr")], raises=(), policy=POL_ABS,
             loops={(M + "_write", 0): LoopSpec(R + "inv_ack_wait", havoc=[R + "havoc_update"], frame=R + "fixed_cfg", variant=R + "var_rx_deadline")},
             props=["C07", "C15"], replayable=False),
    Contract("C07._net_update", M + "_net_update", {"self": net_schema()},
             requires=[R + "req_update"], ensures=[("listening", R + "ens_node_ok"), ("frame_valid", R + "ens_update_frame")], raises=(), policy=POL_UPD,
             loops={(M + "_net_update", 0): LoopSpec(R + "inv_update_loop", havoc=[R + "havoc_update_loop"], frame=R + "fixed_cfg_aa", variant=R + "var_rx_fifo")},
             props=["C07", "C15"], max_paths=20000, replayable=False),
    Contract("C07.update", "rf24_network:RF24NetworkRoutingOnly.update", {"self": net_schema()},
             requires=[R + "req_node"], ensures=[("listening", R + "ens_node_ok")], raises=(), policy=POL_PUB, props=["C07"], replayable=False),
    Contract("C07.multicast_level.set", M + "multicast_level.setter", {"self": net_schema(), "lvl": Int()},
             requires=[R + "req_mc_level"], ensures=[("listening", R + "ens_mc_level")], raises=(), policy=POL, props=["C07"]),
    Contract("C07.multicast", M + "multicast",
             {"self": net_schema(), "message": OneOf(Bytes(0, 6000), ByteArray(0, 6000)), "message_type": Int(0, 255), "level": OneOf(Const(None), Int())},
             requires=[R + "req_multicast"], ensures=[("listening", R + "ens_node_ok_or_raise")], raises=("ValueError",), policy=POL_PUB, props=["C07"], replayable=False),
    Contract("C07.write", "rf24_network:RF24Network.write",
             {"self": net_schema(), "frame": FRAME_ARG, "traffic_direct": OneOf(Const(0o70), Int(0, 4095))},
             requires=[R + "req_net_write"], ensures=[("listening", R + "ens_node_ok_or_raise")],
             raises=("ValueError", "AttributeError", "TypeError"), policy=POL_PUB, props=["C07"], replayable=False),
    Contract("C07.node_address.set", "rf24_network:RF24NetworkRoutingOnly.node_address.setter", {"self": net_schema(), "val": OneOf(Int(), Const(None))},
             requires=[R + "req_node_addr_any_state"], ensures=[("listening", R + "ens_node_addr")], raises=(), policy=POL_PUB, props=["C07"], replayable=False),
]


def ens_node_ok_or_raise(self, old_self, exc):
    return node_ok(self) and self._addr == old_self._addr


def ens_listening_any_addr(self, exc):
    return exc is None and node_ok(self)


# ---- constructors: the base case of "whenever ... returns, the node listens on all its addresses"

def req_net_init(self, spi, csn, ce_pin, node_address, spi_frequency):
    from spec.rf24_state import hw_ranges
    return hw_ranges(spi.hw) and same_object(ce_pin.hw, spi.hw) and (valid_node(node_address) or not valid_address(node_address))


def ens_net_init(self, node_address, exc):
    """a valid node address: the new node listens on all its addresses; anything else is refused
    with ValueError"""
    if exc is not None:
        return exc == "ValueError" and not valid_node(node_address)
    return valid_node(node_address) and node_ok(self) and self._addr == node_address and self._net_lvl == level(node_address)


from pyvc.specrt import same_object  # noqa: E402
from pyvc.schema import Obj  # noqa: E402
from spec.rf24_state import radio_schema  # noqa: E402
from spec.c09 import INIT_POL  # noqa: E402

NET_INIT_POL = dict(INIT_POL)
NET_INIT_POL.update(POL)
NET_INIT_POL.update({"rf24:RF24.__init__": "inline", "mixins:RadioMixin.__init__": "inline", "mixins:NetworkMixin.__init__": "inline",
                     "mixins:NetworkMixin._begin": "ref:" + R + "abs_begin", "structs:FrameQueueFrag.__init__": "inline",
                     "structs:FrameQueue.__init__": "inline", "rf24_network:RF24NetworkRoutingOnly.__init__": "inline"})
CONTRACTS.append(
    Contract("C07.init", "rf24_network:RF24NetworkRoutingOnly.__init__",
             {"self": Obj("rf24_network:RF24NetworkRoutingOnly", {}), "spi": Obj("spec.hw:SpiStub", {"hw": radio_schema()}), "csn": Const(None),
              "ce_pin": Obj("spec.hw:Pin", {"hw": radio_schema()}), "node_address": Int(0, 0xFFFF), "spi_frequency": Const(10000000)},
             requires=[R + "req_net_init"], ensures=[("listening", R + "ens_net_init")], raises=("ValueError",), policy=NET_INIT_POL,
             props=["C07"], replayable=False))
