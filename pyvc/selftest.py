"""Engine self-test run by MANIFEST.setup_cmd: a few obligations with known answers, including
ones that MUST be refuted (an engine that proves everything is unsound)."""
import os
import sys

VERIF = os.path.dirname(os.path.dirname(os.path.abspath(__file__)))
sys.path.insert(0, VERIF)


def main():
    from pyvc.frontend import Program
    from pyvc.explore import explore
    from pyvc.driver import lemma_driver
    from pyvc.cdef import Lemma
    from pyvc.schema import Int, Bytes
    prog = Program("/repo", VERIF)
    cases = [
        (Lemma("st.clamp", {"v": Int()}, "spec.selftest_spec:lemma_clamp_ok"), "unsat"),
        (Lemma("st.false", {"v": Int()}, "spec.selftest_spec:lemma_false"), "sat"),
        (Lemma("st.bytes", {"b": Bytes(0, None)}, "spec.selftest_spec:lemma_bytes"), "unsat"),
        (Lemma("st.loop", {"n": Int(0, 12)}, "spec.selftest_spec:lemma_loop"), "unsat"),
    ]
    bad = 0
    for lm, want in cases:
        res = explore(prog, lm.name, lemma_driver(prog, lm), timeout_ms=20000)
        sts = set(o.status for o in res.obligations)
        got = "sat" if "sat" in sts else ("unknown" if "unknown" in sts or res.unsupported else "unsat")
        if not res.obligations:
            got = "none"
        ok = got == want
        print("selftest %-10s want=%-6s got=%-6s %s %s" % (lm.name, want, got, "ok" if ok else "FAIL", res.unsupported[:1]))
        bad += 0 if ok else 1
    return 1 if bad else 0


if __name__ == "__main__":
    sys.exit(main())
