"""BOUNDED native stand-ins (run under /venv/bin/python by bin/check; never counted as proved).
Each returns {"name", "bound", "evaluations", "failures": [first few failing inputs]}."""
import itertools


def temperature_roundtrip():
    from circuitpython_nrf24l01.fake_ble import TemperatureServiceData
    fails = []
    n = 0
    for c in range(-30000, 30001):
        t = c / 100.0
        s = TemperatureServiceData()
        s.data = t
        r = TemperatureServiceData()
        r.data = bytes(s.data_bytes) if hasattr(s, "data_bytes") else bytes(s._data)
        n += 1
        if abs(r.data - t) > 0.0051:
            if len(fails) < 5:
                fails.append({"advertised": t, "decoded": r.data})
    return {"name": "temperature_roundtrip", "bound": "all 60001 values -300.00..+300.00", "evaluations": n, "failures": fails}


def url_roundtrip():
    from circuitpython_nrf24l01.fake_ble import UrlServiceData
    fails = []
    n = 0
    alphabet = "az09-_"
    bodies = [""] + ["".join(p) for k in (1, 2, 3) for p in itertools.product(alphabet, repeat=k)]
    for pre in UrlServiceData.codex_prefix:
        for suf in [""] + UrlServiceData.codex_suffix:
            for body in bodies[::7] + ["nrf24", "a-b_c"]:
                url = pre + body + suf
                s = UrlServiceData()
                s.data = url
                r = UrlServiceData()
                r.data = bytes(s._data)
                n += 1
                if r.data != url and len(fails) < 5:
                    fails.append({"advertised": url, "decoded": r.data})
    return {"name": "url_roundtrip", "bound": "4 prefixes x 15 suffix options x %d bodies" % (len(bodies[::7]) + 2), "evaluations": n, "failures": fails}


def crc_bit_errors():
    from circuitpython_nrf24l01.fake_ble import crc24_ble
    base = bytes((7 * i + 3) & 0xFF for i in range(23))
    good = bytes(crc24_ble(base))
    pkt = bytearray(base + good)
    nbits = len(pkt) * 8
    fails = []
    n = 0

    def flip(p, i):
        p[i // 8] ^= 1 << (i % 8)
    for i in range(nbits):
        for j in range(i, nbits):
            p = bytearray(pkt)
            flip(p, i)
            if j != i:
                flip(p, j)
            n += 1
            if bytes(crc24_ble(bytes(p[:-3]))) == bytes(p[-3:]) and len(fails) < 5:
                fails.append({"flipped_bits": [i, j]})
    return {"name": "crc_bit_errors", "bound": "all single and double bit flips of one 26-byte packet", "evaluations": n, "failures": fails}


def dhcp_json_roundtrip():
    """C16, JSON persistence (json / the file system are outside the verified subset): save_dhcp() then
    load_dhcp() into an empty table reproduces the leases; into a CHANGED table keeps D (no two IDs on
    one address) and installs every saved lease.  Seeded-random D-tables; the binary format is proved."""
    import os
    import random
    import tempfile
    from circuitpython_nrf24l01.rf24_mesh import RF24Mesh
    rnd = random.Random(int(os.environ.get("VERIF_SEED", "1")))
    valid = [a for a in range(1, 0o5556) if all(1 <= ((a >> (3 * k)) & 7) <= 5 for k in range(len(oct(a)) - 2)) and a != 0o4444]

    def table():
        n = rnd.randint(0, 6)
        ids = rnd.sample(range(1, 256), n)
        addrs = rnd.sample(valid[:40] if rnd.random() < 0.7 else valid, n)   # small pool: collisions between tables are common
        return dict(zip(ids, addrs))

    def mesh(d):
        m = object.__new__(RF24Mesh)
        m.dhcp_dict = dict(d)
        return m

    def d_ok(d):
        vals = list(d.values())
        return len(set(vals)) == len(vals)
    fails = []
    n = 0
    tmp = tempfile.mkdtemp(prefix="verif_dhcp_")
    path = os.path.join(tmp, "dhcp.json")
    try:
        for _ in range(1500):
            saved = table()
            mesh(saved).save_dhcp(path, as_bin=False)
            a = mesh({})
            a.load_dhcp(path, as_bin=False)
            other = table()
            b = mesh(other)
            b.load_dhcp(path, as_bin=False)
            n += 2
            bad = None
            if a.dhcp_dict != saved:
                bad = {"saved": saved, "loaded_into_empty": a.dhcp_dict}
            elif not d_ok(b.dhcp_dict) or any(b.dhcp_dict.get(k) != v for k, v in saved.items()):
                bad = {"saved": saved, "table_before_load": other, "table_after_load": b.dhcp_dict}
            if bad and len(fails) < 5:
                fails.append(bad)
    finally:
        try:
            os.remove(path)
        except OSError:
            pass
        os.rmdir(tmp)
    return {"name": "dhcp_json_roundtrip", "bound": "1500 seeded-random pairs of D-tables (0..6 leases each), load into empty and into changed tables",
            "evaluations": n, "failures": fails}
