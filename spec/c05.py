"""C05 / C11 (fragment loop) / C13 / C14 -- what each node puts on the air and hands to its
application, per node by contract; the multi-node statements are compositions of these contracts
along the C04 path under A-AIR (assumed medium) and are argued, not mechanised (DESIGN 6).

Ghost air log (spec/net_state.py ref_send_net): air_n = number of frames handed to RF24.send,
air_last / air_first = their bytes, air_addr = the TX address, air_aa = EN_AA bit 0 in force."""
from pyvc.cdef import Contract, Lemma, LoopSpec
from pyvc.schema import Int, Bool, Const, Bytes, ByteArray, Obj, OneOf
from pyvc.specrt import implies, ite, oracle_int, require, assume, class_attr, set_class_attr, clock_now
from spec.net_ref import valid_node, valid_address, level, level_addr, next_hop, pipe_to, pipe_address
from spec.net_state import net_schema, net_inv, node_ok, pa, NETPOL
from spec.c07 import (POL, POL_UPD, home_ok, req_wtp, req_write, req_update, havoc_radio_io, havoc_tx_cfg, havoc_update,
                      havoc_frag, frag_fixed, inv_retry_loop, havoc_radio_io_ce, io_fixed_hdr, target_ok, frame_valid_if,
                      abs_tx_standby, inv_ack_wait, fixed_cfg, LOOPS_WTP, ds_latched)
from spec.c11 import ref_header_pack, frame_schema, header_schema
from spec.c06 import Msg, msg_schema, msg_ok, is_frag, frag_type, frag_reserved, frag_body

REC = {"w_calls": Const(0), "w1_to": Const(0), "w1_pipe": Const(0), "w1_mc": Const(False), "w1_type": Const(0),
       "w1_hto": Const(0), "w1_hfrom": Const(0), "w2_to": Const(0), "w2_pipe": Const(0), "w2_mc": Const(False),
       "w2_type": Const(0), "w2_hto": Const(0), "w2_hfrom": Const(0), "w1_ok": Const(False), "u_calls": Const(0), "u_last": Const(0),
       "m_calls": Const(0), "m_to": Const(0), "m_type": Const(0), "m_hto": Const(0), "m_hfrom": Const(0), "m_htype": Const(0),
       "m_msg": Const(b""), "m_hid": Const(0), "m_hres": Const(0)}


def rec_schema(**kw):
    extra = dict(REC)
    extra.update(kw.pop("extra", {}) or {})
    return net_schema(extra=extra, **kw)


# ------------------------------------------------------------------ fragment loop (C11) and single frames (C05)

def frag_frame(self, k, total, msg_t):
    """the k-th frame the fragmenter must emit: same origin/destination/id, FIRST/MORE/LAST,
    descending counter (original type in the last one), 24-byte slice of the message"""
    h = self.frame_buf.header
    msg = bytes(self.frame_buf.message)
    last = k == total - 1
    typ = ite(last, 150, ite(k == 0, 148, 149))
    res = ite(last, msg_t, total - k)
    hdr = (bytes([(h.from_node & 0xFFF) % 256, (h.from_node & 0xFFF) // 256, (h.to_node & 0xFFF) % 256, (h.to_node & 0xFFF) // 256,
                  (h.frame_id & 0xFFFF) % 256, (h.frame_id & 0xFFFF) // 256, typ, res & 0xFF]))
    return hdr + msg[24 * k: min(24 * k + 24, len(msg))]


def inv_frags(self, k_, total, msg_len, msg_t, is_multicast, result):
    hw = self._rf24._spi.hw
    return (implies(k_ >= 1, isinstance(result, bool) and result and ds_latched(self))     # the loop goes on only after an accepted fragment
            and home_ok(self) and (hw.reg[0] & 3) == 2 and msg_len == len(self.frame_buf.message)
            and 24 * (total - 1) < msg_len and msg_len <= 24 * total and msg_len > 24
            and 0 <= msg_t and msg_t <= 255 and total <= 255
            and hw.air_n == k_
            and (hw.reg[1] & 1) == ite(bool(is_multicast), 0, 1)
            and implies(k_ >= 1, hw.air_last == frag_frame(self, k_ - 1, total, msg_t))
            and implies(k_ >= 1, hw.air_aa == ite(bool(is_multicast), 0, 1))
            and implies(k_ >= 1, bytes(hw.air_addr) == bytes(hw.txaddr)))


def req_wtp_air(self, to_node, to_pipe, is_multicast):
    hw = self._rf24._spi.hw
    h = self.frame_buf.header
    return (req_wtp(self, to_node, to_pipe, is_multicast) and hw.air_n == 0 and self.max_message_length <= 24 * 255
            and 0 <= h.message_type and h.message_type <= 255)


def ens_wtp_air(self, old_self, result, exc, to_node, to_pipe, is_multicast):
    """what reaches the air: nothing for a unicast frame to this node itself (queued instead); else
    every frame goes to the pipe address of (to_node, to_pipe) with auto-ack on pipe 0 exactly for
    unicast; a short message is one frame = header + message, a long one is ceil(n/24) fragments
    of which the last one sent is frag(k) -- the loop invariant gives every k"""
    hw = self._rf24._spi.hw
    old = old_self.frame_buf
    n = len(old.message)
    if exc is not None:
        return False
    if to_node == old_self._addr and not bool(is_multicast):
        return hw.air_n == 0
    # the value returned IS the fate of the (last) frame: True iff the radio reports it sent (s78)
    if not (isinstance(result, bool) and result == ds_latched(self)):
        return False
    target = pa(old_self, to_node, to_pipe)
    sent_ok = hw.air_n >= 1 and bytes(hw.air_addr) == target and hw.air_aa == ite(bool(is_multicast), 0, 1)
    if n <= 24:
        return sent_ok and hw.air_n == 1 and hw.air_last == ref_header_pack(old.header) + bytes(old.message)
    total = hw.air_n
    return sent_ok and implies(bool(result), 24 * (total - 1) < n and n <= 24 * total)


LOOPS_AIR = {
    ("mixins:NetworkMixin._write_to_pipe", 0): LoopSpec("spec.c05:inv_frags", havoc=["spec.c07:havoc_frag"], frame="spec.c07:frag_fixed"),
    ("mixins:NetworkMixin._write_to_pipe", 1): LoopSpec("spec.c05:inv_retry_air", havoc=["spec.c05:havoc_retry"], frame="spec.c05:retry_fixed", variant="spec.c07:var_retries"),
}


def inv_retry_air(self, result, retries):
    return inv_retry_loop(self, result, retries)


def havoc_retry(self):
    """resend() retransmits the FIFO head: no new frame is handed to send()"""
    r = self._rf24
    hw = r._spi.hw
    r._in[0] = oracle_int(0, 255)
    hw.tx_n = oracle_int(0, 3)
    hw.reg[7] = oracle_int(0, 7) * 16
    hw.reg[8] = oracle_int(0, 255)
    hw.air_retx = oracle_int(0, 1 << 40)
    hw.ce = oracle_int(0, 1) == 1


def retry_fixed(self):
    hw = self._rf24._spi.hw
    return io_fixed_hdr(self) + (hw.air_n, hw.air_last, bytes(hw.air_addr), hw.air_aa, hw.rx_n)


def abs_tx_standby_air(self, delta_time):
    """_tx_standby only retransmits (resend): the air log of new frames is untouched"""
    hw = self._rf24._spi.hw
    require(home_ok(self) and (hw.reg[0] & 3) == 2 and not ds_latched(self), "_tx_standby: TX mode, radio_home, the frame has just failed")
    havoc_retry(self)
    assume(home_ok(self))
    ok = oracle_int(0, 1) == 1
    assume(ok == ds_latched(self))        # C07._tx_standby.fate
    return ok


# ------------------------------------------------------------------ _write: NETWORK_ACK emit / wait (C13), multicast (C14)

def abs_wtp_rec(self, to_node, to_pipe, is_multicast):
    """C07/C05 contract of _write_to_pipe + a ghost record of the first two calls"""
    require(home_ok(self) and (valid_address(to_node) or (to_node == 0o10000 and to_pipe == 0 and bool(self.allow_multicast)))
            and 0 <= to_pipe and to_pipe <= 5, "_write_to_pipe: radio_home, valid target")
    h = self.frame_buf.header
    ok = oracle_int(0, 1) == 1
    if self.w_calls == 0:
        self.w1_to = to_node
        self.w1_pipe = to_pipe
        self.w1_mc = bool(is_multicast)
        self.w1_type = h.message_type
        self.w1_hto = h.to_node
        self.w1_hfrom = h.from_node
        self.w1_ok = ok
    else:
        self.w2_to = to_node
        self.w2_pipe = to_pipe
        self.w2_mc = bool(is_multicast)
        self.w2_type = h.message_type
        self.w2_hto = h.to_node
        self.w2_hfrom = h.from_node
    self.w_calls = self.w_calls + 1
    if to_node == self._addr and not bool(is_multicast):
        return self.queue.enqueue(self.frame_buf)
    havoc_radio_io(self)
    havoc_tx_cfg(self)
    h.reserved = oracle_int(0, 255)
    assume(home_ok(self))
    assume(implies(bool(is_multicast), self._rf24._spi.hw.reg[1] == 0x3E))
    return ok


def abs_net_update_rec(self):
    require(node_ok(self), "_net_update: node listening")
    havoc_update(self)
    assume(node_ok(self))
    t = oracle_int(0, 255)
    assume(frame_valid_if(self, t))
    self.u_calls = self.u_calls + 1
    self.u_last = t
    return t


def req_write_rec(self, write_direct, send_type):
    h = self.frame_buf.header
    return (req_write(self, write_direct, send_type) and valid_node(h.from_node) and 0 <= h.message_type and h.message_type <= 255
            and implies(send_type <= 1, valid_node(write_direct) and write_direct != self._addr))


def ens_write_ack(self, old_self, result, exc, write_direct, send_type):
    """C13: a NETWORK_ACK is emitted iff this node is the last router of an acknowledgeable
    routed frame it did not originate and the frame was accepted -- exactly one, type 193, addressed
    to the origin, sent along the tree path back; it is awaited iff this node originated an
    acknowledgeable frame whose first hop is not the destination, and then True is returned only if
    the last thing _net_update() reported was a NETWORK_ACK"""
    oh = old_self.frame_buf.header
    me = old_self._addr
    acky = 65 <= oh.message_type and oh.message_type <= 191
    if exc is not None:
        return False
    hop = ite(send_type > 1, write_direct, next_hop(me, write_direct))
    looped = self.w1_to == me and not self.w1_mc
    emit = send_type == 1 and hop == write_direct and oh.from_node != me and acky and bool(self.w1_ok) and not looped
    wait = (not emit) and acky and bool(self.w1_ok) and hop != write_direct and (send_type == 0 or send_type == 3)
    origin = oh.from_node
    first = self.w_calls >= 1 and self.w1_to == hop and self.w1_type == oh.message_type
    if emit:
        return (first and self.w_calls == 2 and self.w2_type == 193 and self.w2_hto == origin
                and self.w2_to == next_hop(me, origin) and self.w2_pipe == pipe_to(me, origin) and not self.w2_mc
                and self.u_calls == 0)
    if wait:
        return (first and self.w_calls == 1 and self.u_calls >= 1 and isinstance(result, bool)
                and implies(result, self.u_last == 193))
    return first and self.w_calls == 1 and self.u_calls == 0 and result == bool(self.w1_ok) or (looped and self.w_calls == 1 and self.u_calls == 0)


def ens_write_multicast(self, old_self, result, exc, write_direct, send_type):
    """C14: a multicast goes to pipe 0 of the level's address, flagged multicast (=> auto-ack off,
    C07 mc_no_ack), exactly once, never followed by a NETWORK_ACK or a wait"""
    if exc is not None:
        return False
    return implies(send_type == 4, self.w_calls == 1 and self.w1_to == write_direct and self.w1_pipe == 0 and self.w1_mc
                   and self.u_calls == 0)


def inv_ack_wait_rec(self, result):
    return node_ok(self) and isinstance(result, bool) and result and self.w_calls == 1 and self.u_calls >= 0


def entry_ack_deadline(self, rx_timeout):
    """C13: the wait ends route_timeout (ms) after the frame was accepted by the first hop -- the
    deadline is computed from the clock value read at that moment and from route_timeout alone"""
    return rx_timeout == clock_now() + self.route_timeout * 1000000


def havoc_update_rec(self):
    havoc_update(self)
    self.u_calls = oracle_int(1, 1 << 40)
    self.u_last = oracle_int(0, 255)


def wait_fixed(self):
    return fixed_cfg(self) + (self.w_calls, self.w1_to, self.w1_pipe, self.w1_mc, self.w1_type, self.w1_ok)


# ------------------------------------------------------------------ multicast(): level choice, header (C14)

def abs_write_rec(self, write_direct, send_type):
    require(node_ok(self) and target_ok(self, write_direct, send_type), "_write: node listening, valid target")
    h = self.frame_buf.header
    if self.m_calls == 0:
        self.m_to = write_direct
        self.m_type = send_type
        self.m_hto = h.to_node
        self.m_hfrom = h.from_node
        self.m_htype = h.message_type
        self.m_hid = h.frame_id
        self.m_hres = h.reserved
        self.m_msg = bytes(self.frame_buf.message)
    self.m_calls = self.m_calls + 1
    acky = 65 <= h.message_type and h.message_type <= 191 and (send_type == 0 or send_type == 3)
    havoc_radio_io(self)
    if acky:
        havoc_update(self)
    if h.message_type == 150 and h.reserved == 131:
        h.message_type = oracle_int(0, 255)
    if send_type == 1:
        h.message_type = oracle_int(0, 255)
        h.to_node = oracle_int(0, 0xFFFF)
    h.reserved = oracle_int(0, 255)
    self.queue.n = oracle_int(0, 1000)
    assume(node_ok(self))
    return oracle_int(0, 1) == 1


def req_multicast(self, message, message_type, level):
    return req_update(self) and 0 <= message_type and message_type <= 255 and self.max_message_length >= 24


def ens_multicast(self, old_self, old_message, message_type, level, exc):
    """level := the node's own multicast level by default, else the requested level clamped to 0..4;
    destination 0o100, origin this node, the given type; message truncated to 24 only when
    fragmentation is off; handed to _write(level address, TX_MULTICAST) exactly once"""
    if exc is not None:
        return exc == "ValueError" and len(old_message) > old_self.max_message_length and self.m_calls == 0
    lv = ite(level is None, old_self._net_lvl, max(0, min(4, ite(level is None, 0, level))))
    n = len(old_message)
    trunc = n > 24 and not old_self._frag_enabled
    want = ite(trunc, bytes(old_message)[:24], bytes(old_message))
    # a FRESH header: the next frame id of the process-wide counter (two multicasts of one type must
    # not repeat (origin, id, type): a receiver that still queues the first discards the second)
    fresh = (self.m_hid == old_self.g_id0 and self.m_hres == 0
             and class_attr(HDR, "_RF24NetworkHeader__next_id") == (old_self.g_id0 + 1) % 65536)
    return (n <= old_self.max_message_length and self.m_calls == 1 and self.m_to == level_addr(lv) and self.m_type == 4
            and self.m_hto == 0o100 and self.m_hfrom == old_self._addr and self.m_htype == message_type
            and self.m_msg == want and fresh)


HDR = "structs:RF24NetworkHeader"


def setup_next_id(self):
    """the frame-id counter of RF24NetworkHeader is an arbitrary 16-bit value"""
    set_class_attr(HDR, "_RF24NetworkHeader__next_id", self.g_id0)


# ------------------------------------------------------------------ RF24Network.write (C05)

def req_net_write(self, frame, traffic_direct):
    return req_update(self) and self.max_message_length >= 24 and traffic_direct == 0o70


def ens_net_write(self, old_self, old_frame, exc, result):
    """from_node := this node; the frame (truncated to 24 bytes only with fragmentation off) is
    handed to _write(to_node, TX_NORMAL) once; the documented exceptions otherwise"""
    oh = old_frame.header
    n = len(old_frame.message)
    if exc is not None:
        return (self.m_calls == 0 and ((exc == "AttributeError" and not valid_address(oh.to_node))
                                       or (exc == "ValueError" and n > old_self.max_message_length and valid_address(oh.to_node))))
    trunc = n > 24 and not old_self._frag_enabled
    want = ite(trunc, bytes(old_frame.message)[:24], bytes(old_frame.message))
    return (valid_address(oh.to_node) and n <= old_self.max_message_length
            and self.m_calls == 1 and self.m_to == oh.to_node and self.m_type == 0
            and self.m_hfrom == old_self._addr and self.m_hto == oh.to_node and self.m_htype == oh.message_type
            and self.m_hid == oh.frame_id and self.m_msg == want)


# ------------------------------------------------------------------ reception of one frame (C05 / C13 / C14)

class RecQueue:
    """frame queue abstraction that records what it was handed (C12 proves the real one stores
    exactly that view or refuses)"""

    def enqueue(self, frame):
        h = frame.header
        self.calls = self.calls + 1
        self.l_from = h.from_node
        self.l_to = h.to_node
        self.l_id = h.frame_id
        self.l_type = h.message_type
        self.l_msg = bytes(frame.message)
        ok = oracle_int(0, 1)
        return ok == 1

    def __len__(self):
        return self.calls


def recq():
    return Obj("spec.c05:RecQueue", {"calls": Const(0), "l_from": Const(0), "l_to": Const(0), "l_id": Const(0), "l_type": Const(0),
                                     "l_msg": Const(b"")})


def rx_frame(self):
    """the single payload waiting in the RX FIFO, as (from, to, id, type, reserved, message)"""
    hw = self._rf24._spi.hw
    d = hw.rx_data[0]
    n = hw.rx_len[0]
    return (d[0] + 256 * d[1], d[2] + 256 * d[3], d[4] + 256 * d[5], d[6], d[7], d[8:n])


def req_one_frame(self):
    hw = self._rf24._spi.hw
    f = rx_frame(self)
    return (req_update(self) and hw.rx_n == 1 and hw.rx_len[0] >= 8 and valid_address(f[0]) and valid_address(f[1])
            and hw.air_n == 0)


def req_for_me_user(self):
    f = rx_frame(self)
    return req_one_frame(self) and f[1] == self._addr and f[3] <= 127 and valid_node(self._addr)


def ens_for_me_user(self, old_self, exc, result):
    """a user message for this node is handed to the queue once, as received; nothing is sent"""
    f = rx_frame(old_self)
    q = self.queue
    return (exc is None and q.calls == 1 and q.l_from == f[0] and q.l_to == f[1] and q.l_id == f[2] and q.l_type == f[3]
            and q.l_msg == f[5] and self.m_calls == 0 and result == f[3])


def req_forward(self):
    f = rx_frame(self)
    return (req_one_frame(self) and f[1] != self._addr and f[1] != 0o100 and self._addr != 0o4444
            and valid_node(f[1]) and f[0] < 4096 and f[1] < 4096)


def ens_forward(self, old_self, exc, result):
    """a unicast frame for another node is NOT handed to this node's application; it is passed
    to _write(to_node, TX_ROUTED) exactly once with the received header and message unchanged
    (re-serialisation reproduces the received bytes: C11.lemma.repack)"""
    f = rx_frame(old_self)
    return (exc is None and self.queue.calls == 0 and self.m_calls == 1 and self.m_to == f[1] and self.m_type == 1
            and self.m_hfrom == f[0] and self.m_hto == f[1] and self.m_hid == f[2] and self.m_htype == f[3]
            and self.m_hres == f[4] and self.m_msg == f[5] and result == 0)


def req_mc_rx(self):
    f = rx_frame(self)
    return req_one_frame(self) and f[1] == 0o100 and bool(self.allow_multicast) and f[3] != 194 and f[1] != self._addr


def ens_mc_rx(self, old_self, exc, result):
    """C14: a received multicast is queued once; with relay enabled on levels 1..3 it is
    re-broadcast exactly once to the next level; with relay off nothing is transmitted"""
    f = rx_frame(old_self)
    relay = bool(old_self.allow_multicast) and bool(old_self._relay_enabled)
    lv = old_self._net_lvl
    queued = self.queue.calls == 1 and self.queue.l_type == f[3] and self.queue.l_from == f[0] and self.queue.l_msg == f[5]
    if exc is not None:
        return False
    if not relay:
        return queued and self.m_calls == 0
    # levels 1..3: the next level; level 4: the (unpopulated) level 5 -- never a populated level other than
    # the next one, or nodes of another level would receive it; level 0: the master relays to its own level
    nxt = ite(lv == 0, 0, ite(lv == 4, 0o10000, level_addr(lv + 1)))
    return queued and self.m_calls == 1 and self.m_type == 4 and self.m_to == nxt


def req_ack_for_me(self):
    f = rx_frame(self)
    return req_one_frame(self) and f[1] == self._addr and f[3] == 193


def ens_ack_for_me(self, old_self, exc, result):
    """C13: a NETWORK_ACK for this node is reported, not queued, not answered"""
    return exc is None and result == 193 and self.queue.calls == 0 and self.m_calls == 0


def ens_ack_only_if_received(self, result, exc):
    """C13: update() reports NETWORK_ACK only for a received frame of that type"""
    h = self.frame_buf.header
    return exc is None and implies(result == 193, h.message_type == 193 and valid_address(h.from_node))


R = "spec.c05:"
M = "mixins:NetworkMixin."
POL_AIR = dict(POL)
POL_AIR[M + "_tx_standby"] = "ref:" + R + "abs_tx_standby_air"
POL_W = dict(POL)
POL_W.update({M + "_write_to_pipe": "ref:" + R + "abs_wtp_rec", M + "_net_update": "ref:" + R + "abs_net_update_rec",
              M + "_logi_2_phys": "ref:spec.c04:ref_logi_2_phys"})
POL_PUBREC = dict(POL)
POL_PUBREC.update({M + "_write": "ref:" + R + "abs_write_rec", "rf24_network:RF24Network._pre_write": "inline"})
POL_RX = dict(POL_UPD)
POL_RX[M + "_write"] = "ref:" + R + "abs_write_rec"

CONTRACTS = [
    Contract("C05._write_to_pipe.air", M + "_write_to_pipe",
             {"self": net_schema(), "to_node": Int(0, 4095), "to_pipe": Int(0, 5), "is_multicast": Bool()},
             requires=[R + "req_wtp_air"], ensures=[("air", R + "ens_wtp_air")], raises=(), policy=POL_AIR, loops=LOOPS_AIR,
             props=["C05", "C11", "C14", "C13"], replayable=False, timeout_ms=60000),
    Contract("C13._write", M + "_write", {"self": rec_schema(), "write_direct": Int(0, 4095), "send_type": Int(0, 4)},
             requires=[R + "req_write_rec"], ensures=[("network_ack", R + "ens_write_ack"), ("multicast", R + "ens_write_multicast")],
             raises=(), policy=POL_W,
             loops={(M + "_write", 0): LoopSpec(R + "inv_ack_wait_rec", havoc=[R + "havoc_update_rec"], frame=R + "wait_fixed",
                                                entry=R + "entry_ack_deadline", variant="spec.c07:var_rx_deadline")},
             props=["C13", "C14", "C05"], replayable=False),
    Contract("C14.multicast", M + "multicast",
             {"self": rec_schema(extra={"g_id0": Int(0, 0xFFFF)}), "message": OneOf(Bytes(0, 6000), ByteArray(0, 6000)), "message_type": Int(0, 255), "level": OneOf(Const(None), Int())},
             setup=[R + "setup_next_id"], requires=[R + "req_multicast"], ensures=[("refines", R + "ens_multicast")], raises=("ValueError",), policy=POL_PUBREC,
             props=["C14", "C04"], replayable=False),   # C04: "a multicast addressed to that level is transmitted to exactly that address" (seed s72)
    Contract("C05.write", "rf24_network:RF24Network.write",
             {"self": rec_schema(), "frame": frame_schema(True, 6000), "traffic_direct": Const(0o70)},
             requires=[R + "req_net_write"], ensures=[("refines", R + "ens_net_write")], raises=("ValueError", "AttributeError"),
             policy=POL_PUBREC, props=["C05"], replayable=False),
    Contract("C05.update.for_me", M + "_net_update", {"self": rec_schema(queue=recq())}, requires=[R + "req_for_me_user"],
             ensures=[("queued", R + "ens_for_me_user")], raises=(), policy=POL_RX, props=["C05"], replayable=False),
    Contract("C05.update.forward", M + "_net_update", {"self": rec_schema(queue=recq())}, requires=[R + "req_forward"],
             ensures=[("forwarded", R + "ens_forward")], raises=(), policy=POL_RX, props=["C05", "C13"], replayable=False),
    Contract("C14.update.mc_rx", M + "_net_update", {"self": rec_schema(queue=recq())}, requires=[R + "req_mc_rx"],
             ensures=[("mc_rx", R + "ens_mc_rx")], raises=(), policy=POL_RX, props=["C14"], replayable=False),
    Contract("C13.update.ack", M + "_net_update", {"self": rec_schema(queue=recq())}, requires=[R + "req_ack_for_me"],
             ensures=[("reported", R + "ens_ack_for_me")], raises=(), policy=POL_RX, props=["C13", "C05"], replayable=False),
]
