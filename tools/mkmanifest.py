"""Regenerate MANIFEST.json from spec/registry.py (single source for the per-property claims)."""
import json
import os
import sys

VERIF = os.path.dirname(os.path.dirname(os.path.abspath(__file__)))
sys.path.insert(0, VERIF)
from spec import registry  # noqa

TECH = "contract-based deductive verification (AST->VC generator on the real source, z3/cvc5)"
checks = []
for pid in sorted(registry.PROPERTIES):
    e = registry.PROPERTIES[pid]
    checks.append({
        "property_id": pid,
        "quick_cmd": "bin/check %s --tier quick" % pid,
        "thorough_cmd": "bin/check %s --tier thorough" % pid,
        "evidence_file": "evidence/%s.json" % pid,
        "replay_cmd_template": "bin/check %s --replay {path}" % pid,
        "engine": "pyvc",
        "level_claimed": {"category": e.get("level", "proof"), "text": e["level_text"], "design_ref": "DESIGN.md section 5 " + pid},
        "level_note": e["level_note"],
        "technique": e.get("technique", TECH),
    })
na = []
for i in range(1, 21):
    pid = "C%02d" % i
    if pid not in registry.PROPERTIES:
        na.append({"property_id": pid, "reason": registry.NOT_APPLICABLE.get(pid, "contracts not built yet (see DESIGN.md section 8)")})
m = {
    "version": 1,
    "setup_cmd": "cd /verif && python3-vt -m compileall -q pyvc spec >/dev/null && python3-vt -m pyvc.selftest",
    "hooks": {
        "guard": "NRF24_CIRCUITPYTHON_NRF24L01_VERIF",
        "enable": "no hooks: the verifier re-reads /repo's source (ast) on every run and replays natively on the unmodified package; the guard variable is declared but unused",
        "baseline_off_cmd": "cd /repo && /venv/bin/python -m pytest -ra -q -p no:cacheprovider --timeout=900 --continue-on-collection-errors",
        "source_commits": [],
        "add_only": True,
    },
    "engines": [{
        "name": "pyvc", "path": "pyvc/", "serves_properties": sorted(registry.PROPERTIES),
        "kind_free_text": "contract-based deductive verification: symbolic execution of the real AST (re-read from /repo each run) against sidecar contracts in spec/*.py; VCs discharged by z3 5.1 in-process, cvc5 for z3's unknowns; counter-models replayed natively on the real code under /venv/bin/python",
    }],
    "checks": checks,
    "notes": "All checks: exit 0 held / 1 violation (VIOLATION line) / 2 undecided / 3 checker fault. KNOWN_FINDINGS.txt lists repaired defects (fix: commits in /repo) and open findings.",
    "not_applicable": na,
}
with open(os.path.join(VERIF, "MANIFEST.json"), "w") as f:
    json.dump(m, f, indent=1)
print("MANIFEST.json: %d checks, %d not_applicable" % (len(checks), len(na)))
