"""C06 -- reassembly never delivers a message that was not sent in full.

Whole-history property decided by an inductive invariant over ARBITRARY fragment histories: no
delivery pattern is enumerated.  Ghost: `owner` is the sent message the cache is a prefix of (its
first `nxt` fragments), `m` is the sent message the incoming frame is fragment `k` of -- any
message, any k, so every loss / duplication / reordering / interleaving is covered by one step.
A-ID: two distinct in-flight messages seen by this node differ in (from_node, frame_id, to_node)."""
from pyvc.cdef import Contract
from pyvc.schema import Int, Bool, Const, Bytes, ByteArray, Obj, OneOf, ListOf, Share
from pyvc.specrt import implies, ite, same_object
from spec.c11 import header_schema, frame_schema
from spec.c12 import queue_schema, qview, fview, q_wf, nodup, wire12, has_dup, QPOL, FQF, stored_frame

FIRST = 148
MORE = 149
LAST = 150


class Msg:
    """a message some node actually sent to this node (ghost)"""
    pass


def msg_schema():
    return Obj("spec.c06:Msg", {"F": Int(0, 4095), "T": Int(0, 4095), "ID": Int(0, 65535), "TY": Int(0, 255),
                                "n": Int(2, 255), "B": Bytes(25, 24 * 255)})


def msg_ok(m):
    """n = ceil(len(B) / 24) without division"""
    return 24 * (m.n - 1) < len(m.B) and len(m.B) <= 24 * m.n


def frag_type(m, k):
    return ite(k == m.n - 1, LAST, ite(k == 0, FIRST, MORE))


def frag_reserved(m, k):
    """descending counter; the last fragment carries the original type"""
    return ite(k == m.n - 1, m.TY, m.n - k)


def frag_body(m, k):
    return m.B[24 * k: min(24 * k + 24, len(m.B))]


def is_frag(frame, m, k):
    h = frame.header
    return (h.from_node == m.F and h.to_node == m.T and h.frame_id == m.ID
            and h.message_type == frag_type(m, k) and h.reserved == frag_reserved(m, k)
            and bytes(frame.message) == frag_body(m, k))


def cache_empty(self):
    return self._frags.header.from_node is None


def cache_holds(self, owner, nxt):
    """the cache is exactly fragments 0..nxt-1 of `owner`"""
    c = self._frags
    h = c.header
    return (1 <= nxt and nxt <= owner.n - 1
            and h.from_node == owner.F and h.to_node == owner.T and h.frame_id == owner.ID
            and h.message_type == frag_type(owner, nxt - 1) and h.reserved == frag_reserved(owner, nxt - 1)
            and bytes(c.message) == owner.B[:24 * nxt])


def same_msg(a, b):
    return (a.F == b.F and a.T == b.T and a.ID == b.ID and a.TY == b.TY and a.n == b.n and a.B == b.B)


def a_id(a, b):
    """A-ID: (from_node, frame_id, to_node) identifies an in-flight message seen by this node"""
    return implies(a.F == b.F and a.ID == b.ID and a.T == b.T, same_msg(a, b))


def complete(m):
    """what the application must get: origin, id, the ORIGINAL type, the whole body"""
    return (m.F, m.T, m.ID, m.TY, m.TY, m.B)


def _like(sample, data):
    """data with the mutability of sample"""
    if isinstance(sample, bytearray):
        return bytearray(data)
    return bytes(data)


def setup_step_owner(self, frame, owner, nxt, m, k):
    """pre-state by construction: the cache body IS the first nxt fragments of owner and the
    incoming frame's body IS fragment k of m (no quantified hypotheses needed)"""
    self._frags.message = _like(self._frags.message, owner.B[:24 * nxt])
    frame.message = _like(frame.message, frag_body(m, k))


def setup_step_empty(self, frame, m, k):
    frame.message = _like(frame.message, frag_body(m, k))


def req_step_owner(self, frame, owner, nxt, m, k):
    return (q_wf(self) and nodup(self) and msg_ok(owner) and msg_ok(m)
            and cache_holds(self, owner, nxt) and 0 <= k and k <= m.n - 1 and is_frag(frame, m, k)
            and (same_object(owner, m) or not same_id(owner, m)))


def same_id(a, b):
    """A-ID: (from_node, frame_id, to_node) identifies an in-flight message seen by this node -- the
    destination is part of the identity: a sender that re-uses one header for a unicast to this
    node and a multicast to its level puts two messages with equal origin and id on the air"""
    return a.F == b.F and a.ID == b.ID and a.T == b.T


def ens_step_owner(self, old_self, result, exc, owner, nxt, m, k):
    if exc is not None:
        return False
    q0 = qview(old_self)
    q1 = qview(self)
    same = same_id(owner, m)
    cap = self.max_queue_size == old_self.max_queue_size
    if k == 0:
        # a FIRST fragment (re)starts reassembly with m
        return cap and result == True and q1 == q0 and cache_holds(self, m, 1)
    if same and k == nxt:
        if k < m.n - 1:
            return cap and result == True and q1 == q0 and cache_holds(self, owner, nxt + 1)
        # the LAST fragment in sequence completes the message
        full = len(old_self._queue) >= old_self.max_queue_size
        dup = False
        for frm in old_self._queue:
            dup = dup or (frm.header.from_node == owner.F and frm.header.frame_id == owner.ID
                          and frm.header.message_type == owner.TY)
        refused = full or dup
        return (cap and cache_empty(self)
                and implies(refused, result == False and q1 == q0)
                and implies(not refused, result == True and q1 == q0 + (complete(owner),)))
    # anything else is discarded: not spliced, not delivered
    return cap and result == False and q1 == q0 and (cache_holds(self, owner, nxt) or cache_empty(self))


def when_last_out_of_sequence(self, frame, owner, nxt, m, k):
    """known finding D4(a): the LAST fragment of the cached message arriving while middle
    fragments are still missing"""
    return same_id(owner, m) and k == m.n - 1 and k != nxt and k != 0


def req_no_overtaking_last(self, frame, owner, nxt, m, k):
    return not when_last_out_of_sequence(self, frame, owner, nxt, m, k)


def req_step_empty(self, frame, m, k):
    return (q_wf(self) and nodup(self) and msg_ok(m) and cache_empty(self)
            and 0 <= k and k <= m.n - 1 and is_frag(frame, m, k))


def ens_step_empty(self, old_self, result, exc, m, k):
    if exc is not None:
        return False
    q0 = qview(old_self)
    q1 = qview(self)
    cap = self.max_queue_size == old_self.max_queue_size
    if k == 0:
        return cap and result == True and q1 == q0 and cache_holds(self, m, 1)
    # a MORE/LAST fragment with no FIRST is discarded
    return cap and result == False and q1 == q0 and cache_empty(self)


def ens_init_empty(self, exc):
    return exc is None and cache_empty(self)


def ens_cache_untouched(self, old_self):
    a = self._frags
    b = old_self._frags
    return (a.header.from_node == b.header.from_node and a.header.to_node == b.header.to_node
            and a.header.frame_id == b.header.frame_id and a.header.message_type == b.header.message_type
            and a.header.reserved == b.header.reserved and bytes(a.message) == bytes(b.message))


R = "spec.c06:"
POL = dict(QPOL)
POL["structs:FrameQueue.enqueue"] = "inline"


def fq_state(cache_from, maxn=2):
    hdr = Obj("structs:RF24NetworkHeader", {"from_node": cache_from, "to_node": Int(0, 0xFFFF), "frame_id": Int(0, 0xFFFF),
                                            "message_type": Int(0, 255), "reserved": Int(0, 255)})
    cache = Obj("structs:RF24NetworkFrame", {"header": hdr, "message": OneOf(Bytes(0, None), ByteArray(0, None))})
    alts = [ListOf([stored_frame() for _ in range(n)]) for n in range(maxn + 1)]
    return Obj(FQF, {"max_queue_size": Int(0, 1000), "_queue": OneOf(*alts), "_frags": cache})


ARG = frame_schema(True, None, msg=OneOf(Bytes(0, 24), ByteArray(0, 24)))

CONTRACTS = [
    Contract("C06.enqueue.step", FQF + ".enqueue",
             {"self": fq_state(Int(0, 4095)), "frame": ARG, "owner": Share("owner", msg_schema()), "nxt": Int(1, 254),
              "m": OneOf(Share("owner"), msg_schema()), "k": Int(0, 254)},
             ghost=["owner", "nxt", "m", "k"], setup=[R + "setup_step_owner"], requires=[R + "req_step_owner"], ensures=[("R", R + "ens_step_owner")],
             raises=(), policy=POL, props=["C06"], timeout_ms=60000),
    # C05 ("reassembled transparently") rests on the same step; its premise -- no packet lost, no other
    # message in flight -- excludes a LAST fragment overtaking missing middle fragments, so the known
    # finding D4a (which needs exactly that) is outside it by precondition, not by suppression
    Contract("C05.reassemble.step", FQF + ".enqueue",
             {"self": fq_state(Int(0, 4095)), "frame": ARG, "owner": Share("owner", msg_schema()), "nxt": Int(1, 254),
              "m": OneOf(Share("owner"), msg_schema()), "k": Int(0, 254)},
             ghost=["owner", "nxt", "m", "k"], setup=[R + "setup_step_owner"], requires=[R + "req_step_owner", R + "req_no_overtaking_last"],
             ensures=[("R", R + "ens_step_owner")], raises=(), policy=POL, props=["C05"], timeout_ms=60000),
    Contract("C06.enqueue.step_empty", FQF + ".enqueue",
             {"self": fq_state(Const(None)), "frame": ARG, "m": msg_schema(), "k": Int(0, 254)},
             ghost=["m", "k"], setup=[R + "setup_step_empty"], requires=[R + "req_step_empty"], ensures=[("R", R + "ens_step_empty")],
             raises=(), policy=POL, props=["C06", "C05"], timeout_ms=60000),
    Contract("C06.init.empty", FQF + ".__init__", {"self": Obj(FQF, {}), "queue": Const(None)},
             ensures=[("empty", R + "ens_init_empty")], raises=(), policy=POL, props=["C06", "C05"]),
]
