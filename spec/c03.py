"""C03 -- setters program the documented encoding, getters agree, shadows stay current.

Reference functions are written from /repo/docs/core_api/*.rst (documented domain, clamp or
reject) and the nRF24L01+ register map (Table 28) -- not from the code.  Each works directly on
the abstract radio (`self._spi.hw`) and on the shadow attributes; the obligation is that the real
body, run through the SPI primitives against A-HW, ends in exactly the same abstract state
(`view_cfg`: all shadows, the whole register file, FIFOs, CE, no reserved write), returns the same
value and raises the same exception type, from every state satisfying Inv.
"""
from pyvc.cdef import Contract
from pyvc.schema import Int, Bool, Const, Bytes, ByteArray, ListOf, TupleOf, OneOf
from pyvc.specrt import implies, ite
from spec.rf24_state import rf24_schema, inv, view_cfg, post_inv, unchanged_on_raise


def _clamp(v, lo, hi):
    return max(lo, min(v, hi))


# ------------------------------------------------------------------ reference functions

def ref_address_length_get(self):
    return self._spi.hw.reg[3] + 2


def ref_address_length_set(self, length):
    hw = self._spi.hw
    n = ite(3 <= length and length <= 5, length, 2)   # docs: invalid input -> 2 bytes
    hw.reg[3] = n - 2
    self._addr_len = n


def ref_close_rx_pipe(self, pipe_number):
    if pipe_number < 0 or pipe_number > 5:
        raise IndexError()
    hw = self._spi.hw
    hw.reg[2] = hw.reg[2] & ~(1 << pipe_number) & 0x3F
    self._open_pipes = hw.reg[2]
    if pipe_number == 0:
        self._pipe0_read_addr = None


def ref_open_rx_pipe_v(self, pipe_number, address):
    """same, rejecting an over-long address with ValueError instead of IndexError"""
    if 0 <= pipe_number and pipe_number < 2 and len(address) > 5:
        raise ValueError()
    ref_open_rx_pipe(self, pipe_number, address)


def ref_open_tx_pipe_v(self, address):
    if len(address) > 5:
        raise ValueError()
    ref_open_tx_pipe(self, address)


def ref_open_rx_pipe(self, pipe_number, address):
    if pipe_number < 0 or pipe_number > 5:
        raise IndexError()
    if len(address) == 0:
        raise ValueError()
    if pipe_number < 2 and len(address) > 5:
        raise IndexError()   # an address register holds 5 bytes; rejected with nothing changed
    hw = self._spi.hw
    n = len(address)
    if pipe_number == 0:
        self._pipe0_read_addr = address
        for k in range(5):
            hw.addr0[k] = ite(k < n, (address + bytes(5))[k], hw.addr0[k])
            self._pipes[0][k] = hw.addr0[k]
    elif pipe_number == 1:
        for k in range(5):
            hw.addr1[k] = ite(k < n, (address + bytes(5))[k], hw.addr1[k])
            self._pipes[1][k] = hw.addr1[k]
    else:
        hw.reg[0x0A + pipe_number] = address[0]
        self._pipes[pipe_number] = address[0]
    hw.reg[2] = hw.reg[2] | (1 << pipe_number)
    self._open_pipes = hw.reg[2]


def ref_interrupt_config(self, data_recv, data_sent, data_fail):
    hw = self._spi.hw
    v = hw.reg[0] & 0x0F
    v = v | ite(data_recv, 0, 0x40) | ite(data_sent, 0, 0x20) | ite(data_fail, 0, 0x10)
    hw.reg[0] = v
    self._config = v


def _bits_from(enable, cur):
    """documented forms: bool -> all pipes; int -> bit per pipe (bits > 5 ignored);
    list/tuple -> index per pipe, negative = leave, indices > 5 ignored"""
    if isinstance(enable, bool):
        return ite(enable, 0x3F, 0)
    if isinstance(enable, int):
        return enable & 0x3F
    if isinstance(enable, (list, tuple)):
        v = cur
        k = 0
        for val in enable:
            if k < 6:
                v = ite(val >= 0, (v & ~(1 << k) & 0x3F) | ite(val != 0, 1 << k, 0), v)
            k = k + 1
        return v
    raise ValueError()


def ref_dynamic_payloads_get(self):
    return self._spi.hw.reg[0x1C]


def ref_dynamic_payloads_set(self, enable):
    hw = self._spi.hw
    v = _bits_from(enable, hw.reg[0x1C])
    hw.reg[0x1C] = v
    hw.reg[0x1D] = (hw.reg[0x1D] & 3) | ite(v != 0, 4, 0)   # EN_DPL iff some pipe uses it
    self._dyn_pl = v
    self._features = hw.reg[0x1D]


def ref_set_dynamic_payloads(self, enable, pipe_number):
    hw = self._spi.hw
    if pipe_number is None:
        ref_dynamic_payloads_set(self, bool(enable))
        return
    if pipe_number < 0 or pipe_number > 5:
        raise IndexError()
    v = (hw.reg[0x1C] & ~(1 << pipe_number) & 0x3F) | ite(bool(enable), 1 << pipe_number, 0)
    ref_dynamic_payloads_set(self, v)


def ref_get_dynamic_payloads(self, pipe_number):
    if pipe_number < 0 or pipe_number > 5:
        raise IndexError()
    return (self._spi.hw.reg[0x1C] & (1 << pipe_number)) != 0


def ref_payload_length_get(self):
    return self._spi.hw.reg[0x11]


def ref_payload_length_set(self, length):
    hw = self._spi.hw
    if isinstance(length, int):
        v = _clamp(length, 1, 32)
        for k in range(6):
            hw.reg[0x11 + k] = v
            self._pl_len[k] = v
        return
    if not isinstance(length, (list, tuple)):
        raise ValueError()
    k = 0
    for val in length:
        if k < 6:
            hw.reg[0x11 + k] = ite(val > 0, min(32, val), hw.reg[0x11 + k])
            self._pl_len[k] = hw.reg[0x11 + k]
        k = k + 1


def ref_set_payload_length(self, length, pipe_number):
    hw = self._spi.hw
    if pipe_number is None:
        ref_payload_length_set(self, length)
        return
    if pipe_number < 0 or pipe_number > 5:
        raise IndexError()
    v = _clamp(length, 1, 32)
    hw.reg[0x11 + pipe_number] = v
    self._pl_len[pipe_number] = v


def ref_get_payload_length(self, pipe_number):
    if pipe_number < 0 or pipe_number > 5:
        raise IndexError()
    return self._spi.hw.reg[0x11 + pipe_number]


def ref_arc_get(self):
    return self._spi.hw.reg[4] & 0x0F


def ref_arc_set(self, count):
    hw = self._spi.hw
    hw.reg[4] = (hw.reg[4] & 0xF0) | _clamp(count, 0, 15)
    self._retry_setup = hw.reg[4]


def ref_ard_get(self):
    return (self._spi.hw.reg[4] >> 4) * 250 + 250


def ref_ard_set(self, delta):
    hw = self._spi.hw
    d = _clamp(delta, 250, 4000)
    hw.reg[4] = (hw.reg[4] & 0x0F) | (((d - 250) // 250) << 4)
    self._retry_setup = hw.reg[4]


def ref_set_auto_retries(self, delay, count):
    hw = self._spi.hw
    d = _clamp(delay, 250, 4000)
    hw.reg[4] = (((d - 250) // 250) << 4) | _clamp(count, 0, 15)
    self._retry_setup = hw.reg[4]


def ref_get_auto_retries(self):
    r = self._spi.hw.reg[4]
    return ((r >> 4) * 250 + 250, r & 0x0F)


def ref_auto_ack_get(self):
    return self._spi.hw.reg[1]


def ref_auto_ack_set(self, enable):
    hw = self._spi.hw
    v = _bits_from(enable, hw.reg[1])
    hw.reg[1] = v
    self._aa = v


def ref_set_auto_ack(self, enable, pipe_number):
    hw = self._spi.hw
    if pipe_number is None:
        ref_auto_ack_set(self, bool(enable))
        return
    if pipe_number < 0 or pipe_number > 5:
        raise IndexError()
    v = (hw.reg[1] & ~(1 << pipe_number) & 0x3F) | ite(bool(enable), 1 << pipe_number, 0)
    hw.reg[1] = v
    self._aa = v


def ref_get_auto_ack(self, pipe_number):
    if pipe_number < 0 or pipe_number > 5:
        raise IndexError()
    return (self._spi.hw.reg[1] & (1 << pipe_number)) != 0


def ref_ack_get(self):
    r = self._spi.hw.reg
    return (r[0x1D] & 6) == 6 and (r[1] & r[0x1C] & 1) != 0


def ref_ack_set(self, enable):
    hw = self._spi.hw
    if bool(enable):
        # ACK payloads need auto-ack and dynamic payloads on pipe 0 (docs: enabled as needed)
        hw.reg[1] = hw.reg[1] | 1
        hw.reg[0x1C] = hw.reg[0x1C] | 1
        hw.reg[0x1D] = hw.reg[0x1D] | 6
    else:
        hw.reg[0x1D] = hw.reg[0x1D] & 5
    self._aa = hw.reg[1]
    self._dyn_pl = hw.reg[0x1C]
    self._features = hw.reg[0x1D]


def ref_allow_ask_no_ack_get(self):
    return (self._spi.hw.reg[0x1D] & 1) != 0


def ref_allow_ask_no_ack_set(self, enable):
    hw = self._spi.hw
    hw.reg[0x1D] = (hw.reg[0x1D] & 6) | ite(bool(enable), 1, 0)
    self._features = hw.reg[0x1D]


def ref_data_rate_get(self):
    v = self._spi.hw.reg[6] & 0x28
    return ite(v == 0, 1, ite(v == 8, 2, 250))


def ref_data_rate_set(self, speed):
    if speed != 1 and speed != 2 and speed != 250:
        raise ValueError()
    hw = self._spi.hw
    enc = ite(speed == 1, 0, ite(speed == 2, 0x08, 0x20))   # RF_DR_LOW (bit 5), RF_DR_HIGH (bit 3)
    hw.reg[6] = (hw.reg[6] & 0xD7) | enc
    self._rf_setup = hw.reg[6]


def ref_channel_get(self):
    return self._spi.hw.reg[5]


def ref_channel_set(self, channel):
    if channel < 0 or channel > 125:
        raise ValueError()
    hw = self._spi.hw
    hw.reg[5] = channel
    hw.reg[8] = hw.reg[8] & 0x0F      # datasheet: PLOS_CNT is reset by writing RF_CH
    self._channel = channel


def ref_crc_get(self):
    r = self._spi.hw.reg
    crco = (r[0] & 4) != 0
    en = (r[0] & 8) != 0
    # the radio forces CRC on while any pipe auto-acknowledges
    return ite(r[1] != 0, ite(crco, 2, 1), ite(en, ite(crco, 2, 1), 0))


def ref_crc_set(self, length):
    hw = self._spi.hw
    n = _clamp(length, 0, 2)          # docs: invalid input is clamped to [0, 2]
    enc = ite(n == 0, 0, ite(n == 1, 0x08, 0x0C))   # EN_CRC (bit 3), CRCO (bit 2)
    hw.reg[0] = (hw.reg[0] & 0x73) | enc
    self._config = hw.reg[0]


def ref_power_get(self):
    return (self._spi.hw.reg[0] & 2) != 0


def ref_power_set(self, is_on):
    hw = self._spi.hw
    hw.reg[0] = (hw.reg[0] & 0x7D) | ite(bool(is_on), 2, 0)
    self._config = hw.reg[0]


def ref_pa_level_get(self):
    return (3 - ((self._spi.hw.reg[6] & 6) >> 1)) * -6


def _pa_bits(power):
    return ite(power == 0, 6, ite(power == -6, 4, ite(power == -12, 2, 0)))


def ref_pa_level_set_reject(self, power):
    """documented values program RF_PWR (and LNA on); anything else is rejected"""
    lna = True
    if isinstance(power, (list, tuple)) and len(power) > 1:
        lna = bool(power[1])
        power = power[0]
    if not isinstance(power, int) or (power != 0 and power != -6 and power != -12 and power != -18):
        raise ValueError()
    hw = self._spi.hw
    hw.reg[6] = (hw.reg[6] & 0xF8) | _pa_bits(power) | ite(lna, 1, 0)
    self._rf_setup = hw.reg[6]


def ref_pa_level_set_default(self, power):
    """... or, as the docs put it, invokes the default of 0 dBm with LNA enabled"""
    lna = True
    if isinstance(power, (list, tuple)) and len(power) > 1:
        lna = bool(power[1])
        power = power[0]
    if not isinstance(power, int) or (power != 0 and power != -6 and power != -12 and power != -18):
        power = 0
        lna = True
    hw = self._spi.hw
    hw.reg[6] = (hw.reg[6] & 0xF8) | _pa_bits(power) | ite(lna, 1, 0)
    self._rf_setup = hw.reg[6]


def ref_is_lna_enabled(self):
    return (self._spi.hw.reg[6] & 1) != 0


def ref_address(self, index):
    if index > 5:
        raise IndexError()
    hw = self._spi.hw
    if index < 0:
        return bytes(hw.txaddr)
    if index == 0:
        return bytes(hw.addr0)
    if index == 1:
        return bytes(hw.addr1)
    return bytes([hw.reg[0x0A + index]]) + bytes(hw.addr1[1:])


def ref_open_tx_pipe(self, address):
    if len(address) > 5:
        raise IndexError()
    hw = self._spi.hw
    n = len(address)
    p = address + bytes(5)
    if hw.reg[1] & 1:
        # auto-ack on pipe 0: the ACK comes back to the TX address, so pipe 0 takes it
        for k in range(5):
            hw.addr0[k] = ite(k < n, p[k], hw.addr0[k])
            self._pipes[0][k] = hw.addr0[k]
        hw.reg[2] = hw.reg[2] | 1     # ... and must be open to receive it (C08)
        self._open_pipes = hw.reg[2]
    for k in range(5):
        hw.txaddr[k] = ite(k < n, p[k], hw.txaddr[k])
        self._tx_address[k] = hw.txaddr[k]


# ------------------------------------------------------------------ contracts

PRIMS = {
    "rf24:RF24._reg_read": "inline", "rf24:RF24._reg_write": "inline",
    "rf24:RF24._reg_write_bytes": "inline", "rf24:RF24._reg_read_bytes": "inline",
    # a call to a sibling accessor is verified as part of the caller unless a contract is named for it
    "rf24:RF24.*.getter": "inline",
}

A = Int()            # any integer (A-INT)
ANYBOOL = Bool()


def _lists(elem, maxn=8):
    return [ListOf([elem for _ in range(n)]) for n in range(maxn + 1)]


def _tuples(elem, maxn=3):
    return [TupleOf([elem for _ in range(n)]) for n in range(maxn + 1)]


BITS_ARG = OneOf(Bool(), Int(), *(_lists(Int(), 8) + _tuples(Int(), 2)))
ADDR_ARG = OneOf(Bytes(0, 6), ByteArray(0, 6))


USED_BY_NETWORK = ("open_rx_pipe", "open_tx_pipe", "auto_ack.set", "set_auto_retries")
# the setters that establish the modes C02 quantifies over (auto-ack / ask_no_ack / ACK payloads / retries): send()'s
# contract reads those modes from the REGISTERS, so a setter that programs another mode than the one asked for
# (seed s61: `ack = True` cleared EN_DYN_ACK, so ask_no_ack sends waited for an ACK) breaks C02 through them
# "the same payload-length mode" is C01's premise: the calls that establish it per pipe belong to C01's check as well
# (seed s71: set_payload_length(x, 0) treated pipe 0 as "all pipes" -> a peer's frames to pipe N no longer fit)
PAYLOAD_MODE = ("payload_length.set", "set_payload_length", "dynamic_payloads.set", "set_dynamic_payloads")
MODES_OF_SEND = ("ack.set", "allow_ask_no_ack.set", "auto_ack.set", "set_auto_ack", "arc.set", "ard.set", "set_auto_retries")


def C(name, target, args, ref, extra_policy=None, ensures=(), **kw):
    state = {"self": rf24_schema()}
    state.update(args)
    pol = dict(PRIMS)
    pol.update(extra_policy or {})
    ens = [("inv", "spec.rf24_state:post_inv")] + list(ensures)
    props = ["C03", "C09"]
    if name in USED_BY_NETWORK:
        # callees that the network layer uses BY REFERENCE: their obligations belong to those properties' checks too
        props = props + ["C04", "C07", "C05", "C14"]
    if name in MODES_OF_SEND:
        props = props + ["C02"]
    if name in PAYLOAD_MODE:
        props = props + ["C01"]
    return Contract("C03." + name, target, state, requires=["spec.rf24_state:inv"], refines=ref,
                    view="spec.rf24_state:view_cfg", ensures=ens, policy=pol, props=props, **kw)


R = "spec.c03:"
CONTRACTS = [
    C("address_length.get", "rf24:RF24.address_length.getter", {}, R + "ref_address_length_get"),
    C("address_length.set", "rf24:RF24.address_length.setter", {"length": A}, R + "ref_address_length_set"),
    C("close_rx_pipe", "rf24:RF24.close_rx_pipe", {"pipe_number": A}, R + "ref_close_rx_pipe"),
    C("open_rx_pipe", "rf24:RF24.open_rx_pipe", {"pipe_number": A, "address": ADDR_ARG},
      [R + "ref_open_rx_pipe", R + "ref_open_rx_pipe_v"]),
    C("open_tx_pipe", "rf24:RF24.open_tx_pipe", {"address": ADDR_ARG}, [R + "ref_open_tx_pipe", R + "ref_open_tx_pipe_v"]),
    C("interrupt_config", "rf24:RF24.interrupt_config",
      {"data_recv": ANYBOOL, "data_sent": ANYBOOL, "data_fail": ANYBOOL}, R + "ref_interrupt_config"),
    C("dynamic_payloads.get", "rf24:RF24.dynamic_payloads.getter", {}, R + "ref_dynamic_payloads_get"),
    C("dynamic_payloads.set", "rf24:RF24.dynamic_payloads.setter", {"enable": BITS_ARG}, R + "ref_dynamic_payloads_set"),
    C("set_dynamic_payloads", "rf24:RF24.set_dynamic_payloads", {"enable": OneOf(Bool(), Int()), "pipe_number": OneOf(Const(None), Int())},
      R + "ref_set_dynamic_payloads", {"rf24:RF24.dynamic_payloads.setter": "ref:" + R + "ref_dynamic_payloads_set"}),
    C("get_dynamic_payloads", "rf24:RF24.get_dynamic_payloads", {"pipe_number": A}, R + "ref_get_dynamic_payloads",
      {"rf24:RF24.dynamic_payloads.getter": "ref:" + R + "ref_dynamic_payloads_get"}),
    C("payload_length.get", "rf24:RF24.payload_length.getter", {}, R + "ref_payload_length_get"),
    C("payload_length.set", "rf24:RF24.payload_length.setter",
      {"length": OneOf(Int(), *(_lists(Int(), 8) + _tuples(Int(), 2)))}, R + "ref_payload_length_set"),
    C("set_payload_length", "rf24:RF24.set_payload_length", {"length": A, "pipe_number": OneOf(Const(None), Int())},
      R + "ref_set_payload_length", {"rf24:RF24.payload_length.setter": "ref:" + R + "ref_payload_length_set"}),
    C("get_payload_length", "rf24:RF24.get_payload_length", {"pipe_number": A}, R + "ref_get_payload_length"),
    C("arc.get", "rf24:RF24.arc.getter", {}, R + "ref_arc_get"),
    C("arc.set", "rf24:RF24.arc.setter", {"count": A}, R + "ref_arc_set"),
    C("ard.get", "rf24:RF24.ard.getter", {}, R + "ref_ard_get"),
    C("ard.set", "rf24:RF24.ard.setter", {"delta": A}, R + "ref_ard_set"),
    C("set_auto_retries", "rf24:RF24.set_auto_retries", {"delay": A, "count": A}, R + "ref_set_auto_retries"),
    C("get_auto_retries", "rf24:RF24.get_auto_retries", {}, R + "ref_get_auto_retries",
      {"rf24:RF24.ard.getter": "ref:" + R + "ref_ard_get"}),
    C("auto_ack.get", "rf24:RF24.auto_ack.getter", {}, R + "ref_auto_ack_get"),
    C("auto_ack.set", "rf24:RF24.auto_ack.setter", {"enable": BITS_ARG}, R + "ref_auto_ack_set"),
    C("set_auto_ack", "rf24:RF24.set_auto_ack", {"enable": OneOf(Bool(), Int()), "pipe_number": OneOf(Const(None), Int())},
      R + "ref_set_auto_ack", {"rf24:RF24.auto_ack.setter": "ref:" + R + "ref_auto_ack_set"}),
    C("get_auto_ack", "rf24:RF24.get_auto_ack", {"pipe_number": A}, R + "ref_get_auto_ack"),
    C("ack.get", "rf24:RF24.ack.getter", {}, R + "ref_ack_get"),
    C("ack.set", "rf24:RF24.ack.setter", {"enable": OneOf(Bool(), Int())}, R + "ref_ack_set",
      {"rf24:RF24.set_auto_ack": "ref:" + R + "ref_set_auto_ack"}),
    C("allow_ask_no_ack.get", "rf24:RF24.allow_ask_no_ack.getter", {}, R + "ref_allow_ask_no_ack_get"),
    C("allow_ask_no_ack.set", "rf24:RF24.allow_ask_no_ack.setter", {"enable": OneOf(Bool(), Int())}, R + "ref_allow_ask_no_ack_set"),
    C("data_rate.get", "rf24:RF24.data_rate.getter", {}, R + "ref_data_rate_get"),
    C("data_rate.set", "rf24:RF24.data_rate.setter", {"speed": A}, R + "ref_data_rate_set"),
    C("channel.get", "rf24:RF24.channel.getter", {}, R + "ref_channel_get"),
    C("channel.set", "rf24:RF24.channel.setter", {"channel": A}, R + "ref_channel_set"),
    C("crc.get", "rf24:RF24.crc.getter", {}, R + "ref_crc_get"),
    C("crc.set", "rf24:RF24.crc.setter", {"length": A}, R + "ref_crc_set"),
    C("power.get", "rf24:RF24.power.getter", {}, R + "ref_power_get"),
    C("power.set", "rf24:RF24.power.setter", {"is_on": OneOf(Bool(), Int())}, R + "ref_power_set"),
    C("pa_level.get", "rf24:RF24.pa_level.getter", {}, R + "ref_pa_level_get"),
    C("pa_level.set", "rf24:RF24.pa_level.setter",
      {"power": OneOf(Int(), Bool(), TupleOf([Int(), OneOf(Bool(), Int())]), ListOf([Int(), Bool()]), TupleOf([Int()]), Const(None))},
      [R + "ref_pa_level_set_reject", R + "ref_pa_level_set_default"]),
    C("is_lna_enabled", "rf24:RF24.is_lna_enabled.getter", {}, R + "ref_is_lna_enabled"),
    C("address", "rf24:RF24.address", {"index": A}, R + "ref_address"),
]


# ---- getters that re-read the radio: "every getter returns the value in effect" also when the
#      cached view is STALE (the documented case: a non-plus radio after start_carrier_wave(), whose
#      registers were written behind the shadows' back until the next `with`).  Only the getters
#      whose code reads the register are claimed this way; the others return the cached value by
#      design and are covered from Inv states above.

def hw_only(self):
    """the radio is in a legal state and the shadows are well-formed, but NOT assumed current"""
    from spec.rf24_state import hw_ranges
    hw = self._spi.hw
    return hw_ranges(hw) and self._ce_pin.hw is hw and self._channel <= 125


FRESH = ["dynamic_payloads", "arc", "ard", "auto_ack", "ack", "allow_ask_no_ack", "data_rate", "channel", "crc", "power", "pa_level",
         "address_length"]


def _fresh(name):
    return Contract("C03.%s.get.stale_cache" % name, "rf24:RF24.%s.getter" % name, {"self": rf24_schema()},
                    requires=[R + "hw_only"], refines=R + "ref_%s_get" % name, view="spec.rf24_state:view_hw",
                    policy=dict(PRIMS), props=["C03"])
CONTRACTS += [_fresh(n) for n in FRESH]
