"""C14: "multicast() to level L is received once by every other listening node of level L".
multicast() re-uses frame_buf.header without taking a new frame id, so two multicasts of the same
type from one node carry the SAME (origin, frame id, type); a receiver that still holds the first
one in its queue refuses the second as a duplicate (FrameQueue.enqueue) - the second multicast is
not received.  Sender and receiver are real RF24Network objects on the test suite's SPI shims; only
the radio link is short-circuited (frames handed to the sender's radio are fed to the receiver's
RX FIFO).  Exit 0 = both multicasts received, 1 = the second one is lost."""
import sys
sys.path.insert(0, "/repo/tests")
from conftest import ShimSpiDev, ShimDigitalIO
from circuitpython_nrf24l01.rf24_network import RF24Network


def node(addr):
    spi = ShimSpiDev()
    n = RF24Network(spi, ShimDigitalIO(), ShimDigitalIO(), node_address=addr)
    sent = []
    n._rf24.send = lambda buf, ask_no_ack=False, send_only=False: sent.append(bytes(buf)) or True
    return n, spi, sent


a, _, a_sent = node(0o1)
b, b_spi, _ = node(0o2)

a.multicast(b"first", 1)
a.multicast(b"second", 1)
print("frame ids on air:", [int.from_bytes(f[4:6], "little") for f in a_sent])

# deliver both frames to b (pipe 0 = the level's multicast pipe) before its application reads
got = []
for f in a_sent:
    one = [f]
    b._rf24.read = lambda length=None, one=one: bytearray(one.pop()) if one else None
    b.update()
while b.available():
    got.append(bytes(b.read().message))
print("node 0o2 received:", got)
sys.exit(0 if got == [b"first", b"second"] else 1)
