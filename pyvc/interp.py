"""The symbolic interpreter for the verified Python subset (DESIGN 2.3).  It runs both the
repository code (ASTs re-read from --repo) and the sidecar specification code (spec/*.py)."""
import ast

from . import sym, bts, ops
from .sym import SInt, SBool, SFloat, SRatio, Unsupported, cmp, b_and, b_or, b_not, i_ite, is_conc
from .core import (Ref, HObj, HList, HByteArray, HDict, HSet, VBytes, VStr, BuiltinType, BuiltinFn,
                   BoundBuiltin, BoundMethod, ModuleVal, Opaque, TypeOfVal, SuperProxy, PropRef,
                   LambdaVal, PyRaise, ReturnSig, BreakSig, ContinueSig, PathEnd, ImpureAbort, Ctx)
from .frontend import FuncInfo, ClassInfo, ModuleInfo, PKG

MAX_LOOP = 600
MAX_SYMBOLIC_TURNS = 80
MAX_DEPTH = 60

EXC_NAMES = {"Exception", "ValueError", "IndexError", "TypeError", "AttributeError", "RuntimeError",
             "NotImplementedError", "ImportError", "UnicodeError", "OSError", "KeyError",
             "AssertionError", "ZeroDivisionError", "OverflowError", "LookupError", "StopIteration",
             "UnicodeDecodeError", "ArithmeticError"}


class ExcClass:
    def __init__(self, name):
        self.name = name


class ExcInstance:
    def __init__(self, name):
        self.name = name


class Frame:
    __slots__ = ("locals", "func", "module", "cls", "parent", "spec_alias")

    def __init__(self, func, module, cls=None, parent=None):
        self.locals = {}
        self.func = func
        self.module = module
        self.cls = cls
        self.parent = parent
        self.spec_alias = None      # loop-spec parameter -> actual local (pyvc/loops.py, renamed locals)


class Interp:
    def __init__(self, program, ctx=None):
        self.program = program
        self.ctx = ctx if ctx is not None else Ctx(program, nested=True)
        from . import builtins_
        self.builtins = builtins_.make_builtins(self)
        self.bi = builtins_

    # ================================================================= modules
    def exec_module(self, mod, tree):
        frame = Frame(None, mod)
        frame.locals = mod.globals
        for st in tree.body:
            try:
                self.exec_stmt(st, frame)
            except Unsupported as e:
                # a module-level statement outside the subset poisons only the names it binds
                for n in ast.walk(st):
                    if isinstance(n, ast.Name) and isinstance(n.ctx, ast.Store):
                        mod.globals[n.id] = Opaque("unsupported:" + str(e))

    def resolve_import(self, mod, level, name):
        if level == 0:
            return name
        parts = mod.name.split(".")
        if not getattr(mod, "is_pkg", False):
            parts = parts[:-1]
        if level > 1:
            parts = parts[:-(level - 1)]
        return ".".join(parts + ([name] if name else []))

    def do_import_from(self, st, frame):
        modname = self.resolve_import(frame.module, st.level, st.module)
        for al in st.names:
            bind = al.asname or al.name
            frame.locals[bind] = self.import_name(modname, al.name)

    def import_name(self, modname, name):
        if modname.startswith(PKG) or modname.startswith("spec"):
            # sub-module or attribute?
            sub = modname + "." + name
            if self.program.module_path(sub) and __import__("os").path.exists(self.program.module_path(sub)):
                m = self.program.load(sub)
                return m
            m = self.program.load(modname)
            if name not in m.globals:
                raise Unsupported("cannot import %s from %s" % (name, modname))
            return m.globals[name]
        if modname == "micropython" and name == "const":
            return self.builtins["$identity"]
        if modname == "os" and name == "urandom":
            return self.builtins["$urandom"]
        if modname == "pyvc.specrt":
            if "$" + name in self.builtins:
                return self.builtins["$" + name]
            raise Unsupported("unknown spec helper " + name)
        if modname == "adafruit_bus_device.spi_device" and name == "SPIDevice":
            return self.builtins["$SPIDevice"]
        return Opaque(modname + "." + name)

    # ================================================================= statements
    def exec_block(self, stmts, frame):
        for st in stmts:
            self.exec_stmt(st, frame)

    def exec_stmt(self, st, frame):
        m = getattr(self, "st_" + type(st).__name__, None)
        if m is None:
            raise Unsupported("statement %s (line %s)" % (type(st).__name__, getattr(st, "lineno", "?")))
        return m(st, frame)

    def st_Expr(self, st, frame):
        if isinstance(st.value, ast.Constant):
            return
        if isinstance(st.value, ast.Call) and isinstance(st.value.func, ast.Name) and st.value.func.id == "print":
            return  # DESIGN 2.2(b): print(...) dropped, arguments not evaluated
        self.eval(st.value, frame)

    def st_Pass(self, st, frame):
        return

    def st_Import(self, st, frame):
        for al in st.names:
            bind = al.asname or al.name
            if al.name in ("time", "struct", "json", "os"):
                frame.locals[bind] = ModuleVal(al.name)
            else:
                frame.locals[bind] = Opaque(al.name)

    def st_ImportFrom(self, st, frame):
        self.do_import_from(st, frame)

    def st_FunctionDef(self, st, frame):
        fi = FuncInfo(st.name, st, frame.module, cls=None, closure=frame if frame.func is not None else None)
        frame.locals[st.name] = fi

    def st_ClassDef(self, st, frame):
        bases = []
        for b in st.bases:
            v = self.eval(b, frame)
            if isinstance(v, ClassInfo):
                bases.append(v)
            elif isinstance(v, BuiltinType) and v.name == "object":
                pass
            else:
                raise Unsupported("base class %r" % (v,))
        ci = ClassInfo(st.name, frame.module, bases)
        frame.locals[st.name] = ci
        cframe = Frame(None, frame.module, cls=ci)
        cframe.parent = frame
        for s in st.body:
            if isinstance(s, ast.FunctionDef):
                self._class_func(ci, s, cframe)
            elif isinstance(s, (ast.Assign, ast.AnnAssign)):
                try:
                    self.exec_stmt(s, cframe)
                except Unsupported as e:
                    for n in ast.walk(s):
                        if isinstance(n, ast.Name) and isinstance(n.ctx, ast.Store):
                            cframe.locals[n.id] = Opaque("unsupported:" + str(e))
            elif isinstance(s, (ast.Expr, ast.Pass)):
                continue
            else:
                raise Unsupported("class body statement " + type(s).__name__)
        for k, v in cframe.locals.items():
            if not isinstance(v, (FuncInfo,)):
                ci.attrs[self._mangle(k, ci)] = v

    def _class_func(self, ci, s, cframe):
        fi = FuncInfo(s.name, s, ci.module, cls=ci)
        kind = None
        for d in s.decorator_list:
            if isinstance(d, ast.Name) and d.id == "property":
                kind = ("getter", None)
            elif isinstance(d, ast.Name) and d.id == "staticmethod":
                raise Unsupported("staticmethod")
            elif isinstance(d, ast.Attribute) and d.attr == "setter":
                base = d.value
                if isinstance(base, ast.Name):
                    kind = ("setter", ci.props.get(base.id) or ci.find_prop(base.id))
                    pname = base.id
                elif isinstance(base, ast.Attribute):
                    owner = self.eval(base.value, cframe)
                    if not isinstance(owner, ClassInfo):
                        raise Unsupported("setter decorator owner")
                    kind = ("setter", owner.find_prop(base.attr))
                    pname = base.attr
                else:
                    raise Unsupported("decorator")
                if kind[1] is None:
                    raise Unsupported("setter for unknown property " + pname)
            else:
                raise Unsupported("decorator on " + s.name)
        if kind is None:
            ci.methods[s.name] = fi
        elif kind[0] == "getter":
            fi.kind = "getter"
            ci.props[s.name] = [fi, None]
        else:
            fi.kind = "setter"
            fi.qualname = ci.name + "." + s.name
            ci.props[s.name] = [kind[1][0], fi]

    def _mangle(self, name, cls):
        if cls is not None and name.startswith("__") and not name.endswith("__"):
            return "_" + cls.name.lstrip("_") + name
        return name

    def st_Assign(self, st, frame):
        v = self.eval(st.value, frame)
        for t in st.targets:
            self.assign(t, v, frame)

    def st_AnnAssign(self, st, frame):
        if st.value is not None:
            self.assign(st.target, self.eval(st.value, frame), frame)

    def assign(self, t, v, frame):
        if isinstance(t, ast.Name):
            frame.locals[t.id] = v
        elif isinstance(t, ast.Attribute):
            o = self.eval(t.value, frame)
            self.setattr_(o, self._mangle(t.attr, frame.cls), v)
        elif isinstance(t, ast.Subscript):
            o = self.eval(t.value, frame)
            if isinstance(t.slice, ast.Slice):
                lo = self.eval(t.slice.lower, frame) if t.slice.lower else None
                hi = self.eval(t.slice.upper, frame) if t.slice.upper else None
                if t.slice.step is not None:
                    raise Unsupported("slice step")
                ops.set_slice(self, o, lo, hi, v)
            else:
                ops.set_item(self, o, self.eval(t.slice, frame), v)
        elif isinstance(t, (ast.Tuple, ast.List)):
            items = self.unpack(v, len(t.elts))
            for tt, vv in zip(t.elts, items):
                self.assign(tt, vv, frame)
        else:
            raise Unsupported("assignment target " + type(t).__name__)

    def unpack(self, v, n):
        if isinstance(v, tuple):
            items = list(v)
        elif isinstance(v, Ref) and isinstance(self.ctx.obj(v), HList):
            items = list(self.ctx.obj(v).items)
        else:
            t = ops.bytes_term(self, v)
            if t is not None and t.cells is not None:
                items = list(t.cells)
            else:
                raise Unsupported("unpacking %r" % (ops.type_name(self, v),))
        if len(items) != n:
            raise PyRaise("ValueError", "unpack")
        return items

    def st_AugAssign(self, st, frame):
        opn = type(st.op).__name__
        t = st.target
        if isinstance(t, ast.Name):
            cur = self.lookup(t.id, frame)
            frame.locals[t.id] = self.aug(opn, cur, self.eval(st.value, frame))
        elif isinstance(t, ast.Attribute):
            o = self.eval(t.value, frame)
            name = self._mangle(t.attr, frame.cls)
            cur = self.getattr_(o, name)
            self.setattr_(o, name, self.aug(opn, cur, self.eval(st.value, frame)))
        elif isinstance(t, ast.Subscript):
            o = self.eval(t.value, frame)
            idx = self.eval(t.slice, frame)
            cur = ops.get_item(self, o, idx)
            ops.set_item(self, o, idx, self.aug(opn, cur, self.eval(st.value, frame)))
        else:
            raise Unsupported("augassign target")

    def aug(self, opn, cur, val):
        # in-place forms that differ from the binary operator: bytearray += , list +=
        if isinstance(cur, Ref):
            o = self.ctx.obj(cur)
            if isinstance(o, HByteArray) and opn == "Add":
                src = ops.bytes_term(self, val)
                if src is None:
                    raise PyRaise("TypeError", "can't concat")
                o = self.ctx.mutate(cur)
                o.term = bts.concat(o.term, src)
                return cur
            if isinstance(o, HList) and opn == "Add":
                if isinstance(val, Ref) and isinstance(self.ctx.obj(val), HList):
                    self.ctx.mutate(cur).items.extend(self.ctx.obj(val).items)
                    return cur
        return ops.binop(self, opn, cur, val)

    def st_Return(self, st, frame):
        raise ReturnSig(self.eval(st.value, frame) if st.value is not None else None)

    def st_Break(self, st, frame):
        raise BreakSig()

    def st_Continue(self, st, frame):
        raise ContinueSig()

    def st_Raise(self, st, frame):
        if st.exc is None:
            raise Unsupported("bare raise")
        e = st.exc
        # DESIGN 2.2(a): message text is dropped, arguments are not evaluated
        fn = e.func if isinstance(e, ast.Call) else e
        v = self.eval(fn, frame)
        if isinstance(v, ExcClass):
            raise PyRaise(v.name)
        if isinstance(v, ExcInstance):
            raise PyRaise(v.name)
        raise Unsupported("raise of %r" % (v,))

    def st_Assert(self, st, frame):
        if not self.ctx.branch(ops.truthy(self, self.eval(st.test, frame))):
            raise PyRaise("AssertionError")

    def st_Delete(self, st, frame):
        for t in st.targets:
            if isinstance(t, ast.Subscript) and not isinstance(t.slice, ast.Slice):
                ops.del_item(self, self.eval(t.value, frame), self.eval(t.slice, frame))
            elif isinstance(t, ast.Name):
                frame.locals.pop(t.id, None)
            else:
                raise Unsupported("del target")

    # ---------------------------------------------------------------- if (with merging)
    def st_If(self, st, frame):
        c = ops.truthy(self, self.eval(st.test, frame))
        if isinstance(c, bool):
            return self.exec_block(st.body if c else st.orelse, frame)
        if self._mergeable(st.body) and self._mergeable(st.orelse):
            if self._try_merge(c, st, frame):
                return
        if self.ctx.branch(c):
            self.exec_block(st.body, frame)
        else:
            self.exec_block(st.orelse, frame)

    def _mergeable(self, stmts):
        for s in stmts:
            for n in ast.walk(s):
                if isinstance(n, (ast.Return, ast.Raise, ast.Break, ast.Continue, ast.Try, ast.While,
                                  ast.FunctionDef, ast.Assert, ast.Delete)):
                    return False
        return True

    def enter_pure(self, allow_mut=False):
        if not self.ctx.pure:
            self.ctx.pure_floor = self.ctx.next_oid
        self.ctx.pure += 1
        self._mut_stack = getattr(self, "_mut_stack", [])
        self._mut_stack.append(self.ctx.allow_mut)
        self.ctx.allow_mut = 1 if allow_mut else 0

    def leave_pure(self):
        self.ctx.pure -= 1
        self.ctx.allow_mut = self._mut_stack.pop()

    def _heap_snapshot(self):
        return {oid: o.clone() for oid, o in self.ctx.heap.items()}

    def _try_merge(self, c, st, frame):
        """if-conversion: run both arms on copies of (locals, heap) and merge cell-wise with ite.
        Any fork, exception or unmergeable difference aborts and the caller forks instead."""
        ctx = self.ctx
        saved_locals = dict(frame.locals)
        heap0 = self._heap_snapshot()
        next0 = ctx.next_oid
        cs0 = dict(ctx.class_state)
        ghost0 = dict(ctx.ghost)
        clock0 = ctx.clock
        strict0 = ctx.clock_strict
        n_in = len(ctx.inputs)
        n_pc = len(ctx.pc)
        n_ob = len(ctx.side_unknown)
        fresh0 = ctx.fresh_n
        depth0 = ctx.depth
        cur0 = ctx.cur_func

        def restore():
            ctx.heap = {oid: o.clone() for oid, o in heap0.items()}
            ctx.class_state = dict(cs0)
            ctx.ghost = dict(ghost0)
            ctx.clock = clock0
            ctx.clock_strict = strict0
            frame.locals = dict(saved_locals)
            ctx.depth = depth0
            ctx.cur_func = cur0

        self.enter_pure(allow_mut=True)
        try:
            ctx.guards.append(c.e)
            try:
                self.exec_block(st.body, frame)
            finally:
                ctx.guards.pop()
            if len(ctx.inputs) != n_in or len(ctx.pc) != n_pc or ctx.ghost != ghost0:
                raise ImpureAbort()
            l_then, h_then, cs_then = frame.locals, ctx.heap, ctx.class_state
            restore()
            ctx.guards.append(b_not(c).e)
            try:
                self.exec_block(st.orelse, frame)
            finally:
                ctx.guards.pop()
            if len(ctx.inputs) != n_in or len(ctx.pc) != n_pc or ctx.ghost != ghost0:
                raise ImpureAbort()
            l_else, h_else, cs_else = frame.locals, ctx.heap, ctx.class_state
            merged = {}
            for k in set(l_then) | set(l_else):
                a = l_then.get(k, _MISSING)
                b = l_else.get(k, _MISSING)
                if a is b:
                    merged[k] = a
                    continue
                if a is _MISSING or b is _MISSING:
                    raise ImpureAbort()
                merged[k] = self.merge_values(c, a, b)
            if cs_then != cs_else:
                cs = {}
                for k in set(cs_then) | set(cs_else):
                    if k not in cs_then or k not in cs_else:
                        raise ImpureAbort()
                    cs[k] = self.merge_values(c, cs_then[k], cs_else[k])
                cs_then = cs
            heap = {}
            for oid in set(h_then) | set(h_else):
                a = h_then.get(oid)
                b = h_else.get(oid)
                if a is None or b is None:
                    # allocated in one arm only: visible only through that arm's values
                    heap[oid] = a if a is not None else b
                    continue
                heap[oid] = self._merge_objs(c, a, b)
            ctx.heap = heap
            ctx.class_state = cs_then
            frame.locals = merged
            return True
        except (ImpureAbort, PyRaise, ReturnSig, BreakSig, ContinueSig):
            restore()
            ctx.next_oid = max(ctx.next_oid, next0)
            del ctx.side_unknown[n_ob:]
            if len(ctx.inputs) != n_in:
                for k in list(ctx.inputs)[n_in:]:
                    del ctx.inputs[k]
                    ctx.input_meta.pop(k, None)
            if len(ctx.pc) != n_pc:
                raise Unsupported("internal: path condition grew inside a merge attempt")
            return False
        finally:
            self.leave_pure()

    def _merge_objs(self, c, a, b):
        from .core import HObj, HList, HByteArray, HDict, HSet
        if type(a) is not type(b):
            raise ImpureAbort()
        if isinstance(a, HObj):
            if a.cls is not b.cls or set(a.fields) != set(b.fields):
                raise ImpureAbort()
            out = HObj(a.cls)
            for k in a.fields:
                x, y = a.fields[k], b.fields[k]
                out.fields[k] = x if x is y else self.merge_values(c, x, y)
            return out
        if isinstance(a, HList):
            if len(a.items) != len(b.items):
                raise ImpureAbort()
            return HList([x if x is y else self.merge_values(c, x, y) for x, y in zip(a.items, b.items)])
        if isinstance(a, HByteArray):
            if a.term is b.term:
                return HByteArray(a.term)
            return HByteArray(bts.ite(c, a.term, b.term))
        if isinstance(a, HDict):
            if len(a.keys) != len(b.keys):
                raise ImpureAbort()
            return HDict([x if x is y else self.merge_values(c, x, y) for x, y in zip(a.keys, b.keys)],
                         [x if x is y else self.merge_values(c, x, y) for x, y in zip(a.vals, b.vals)])
        if isinstance(a, HSet):
            if len(a.items) != len(b.items):
                raise ImpureAbort()
            return HSet([x if x is y else self.merge_values(c, x, y) for x, y in zip(a.items, b.items)])
        raise ImpureAbort()

    def merge_values(self, c, a, b):
        if ops.is_intlike(a) and ops.is_intlike(b):
            return i_ite(c, a, b)
        if a is None and b is None:
            return None
        if isinstance(a, (VBytes, bytes)) and isinstance(b, (VBytes, bytes)):
            return VBytes(bts.ite(c, ops.bytes_term(self, a), ops.bytes_term(self, b)))
        if isinstance(a, tuple) and isinstance(b, tuple) and len(a) == len(b):
            return tuple(self.merge_values(c, x, y) for x, y in zip(a, b))
        if isinstance(a, Ref) and isinstance(b, Ref) and a.oid == b.oid:
            return a
        if isinstance(a, str) and isinstance(b, str) and a == b:
            return a
        raise ImpureAbort()

    # ---------------------------------------------------------------- loops
    def loop_key(self, node, frame):
        f = frame.func
        if f is None:
            return None
        loops = [n for n in ast.walk(f.node) if isinstance(n, (ast.While, ast.For))]
        loops.sort(key=lambda n: (n.lineno, n.col_offset))
        return (f.key, loops.index(node))

    def st_While(self, st, frame):
        spec = self.ctx.loop_specs.get(self.loop_key(st, frame)) if self.ctx.loop_specs else None
        if spec is not None:
            from . import loops
            return loops.run_while_with_invariant(self, st, frame, spec)
        turns = 0
        sym_turns = 0
        while True:
            c = ops.truthy(self, self.eval(st.test, frame))
            if not isinstance(c, bool):
                sym_turns += 1
                if sym_turns > MAX_SYMBOLIC_TURNS:
                    raise Unsupported("unwinding bound %d reached in %s line %d (needs an invariant)" % (
                        MAX_SYMBOLIC_TURNS, frame.func.key if frame.func else "?", st.lineno))
            if not self.ctx.branch(c):
                break
            turns += 1
            pb = getattr(self.ctx, "poll_bound", None)
            if pb is not None and turns > pb:
                # the contract's stated termination measure is exceeded on THIS path: if the path is
                # feasible the loop makes more turns than the assumption it rests on allows (a wait that
                # no longer ends shows up here, not as an endless exploration)
                key = self.loop_key(st, frame)
                oname = "%s.%s.loop%d.bounded_turns" % (self.ctx.ghost.get("contract_name", "?"), key[0], key[1])
                self.ctx.oblige(oname, False, info={"loop": "%s loop %d" % key, "bound": pb, "line": st.lineno})
                raise PathEnd()
            if turns > MAX_LOOP:
                raise Unsupported("loop bound in %s line %d" % (frame.func.key if frame.func else "?", st.lineno))
            try:
                self.exec_block(st.body, frame)
            except BreakSig:
                return
            except ContinueSig:
                continue
        self.exec_block(st.orelse, frame)

    def st_For(self, st, frame):
        spec = self.ctx.loop_specs.get(self.loop_key(st, frame)) if self.ctx.loop_specs else None
        if spec is not None:
            from . import loops
            return loops.run_for_with_invariant(self, st, frame, spec)
        itv = self.eval(st.iter, frame)
        for item in self.iterate(itv, frame, st):
            self.assign(st.target, item, frame)
            try:
                self.exec_block(st.body, frame)
            except BreakSig:
                return
            except ContinueSig:
                continue
        self.exec_block(st.orelse, frame)

    def iterate(self, v, frame=None, node=None):
        """generator over the items of an iterable value (forks on symbolic lengths)"""
        if isinstance(v, RangeVal):
            i = v.start
            turns = 0
            while True:
                c = cmp("<", i, v.stop) if v.step > 0 else cmp(">", i, v.stop)
                if not isinstance(c, bool):
                    turns += 1
                    if turns > MAX_SYMBOLIC_TURNS:
                        raise Unsupported("unwinding bound reached in range loop (needs an invariant)")
                if not self.ctx.branch(c):
                    return
                yield i
                i = sym.add(i, v.step)
        elif isinstance(v, EnumVal):
            k = v.start
            for x in self.iterate(v.inner):
                yield (k, x)
                k = sym.add(k, 1)
        elif isinstance(v, (tuple, str)):
            for x in v:
                yield x
        elif isinstance(v, DictItems):
            # live view, as CPython: a change of size is detected at the NEXT step of the iteration
            n0 = len(self.ctx.obj(v.ref).keys)
            k = 0
            while True:
                o = self.ctx.obj(v.ref)
                if len(o.keys) != n0:
                    raise PyRaise("RuntimeError", "dictionary changed size during iteration")
                if k >= len(o.keys):
                    return
                if v.kind == "items":
                    yield (o.keys[k], o.vals[k])
                elif v.kind == "keys":
                    yield o.keys[k]
                else:
                    yield o.vals[k]
                k += 1
        elif isinstance(v, Ref) and isinstance(self.ctx.obj(v), HList):
            o = self.ctx.obj(v)
            k = 0
            while k < len(o.items):
                yield o.items[k]
                k += 1
        elif isinstance(v, Ref) and isinstance(self.ctx.obj(v), HSet):
            n0 = len(self.ctx.obj(v).items)
            k = 0
            while True:
                o = self.ctx.obj(v)
                if len(o.items) != n0:
                    raise PyRaise("RuntimeError", "Set changed size during iteration")
                if k >= len(o.items):
                    return
                yield o.items[k]
                k += 1
        elif isinstance(v, Ref) and isinstance(self.ctx.obj(v), HDict):
            for x in self.iterate(DictItems(v, "keys")):
                yield x
        else:
            t = ops.bytes_term(self, v)
            if t is None:
                raise PyRaise("TypeError", "object is not iterable: %r" % (ops.type_name(self, v),))
            if t.cells is not None:
                is_ba = isinstance(v, Ref)
                k = 0
                while True:
                    if is_ba:
                        t = self.ctx.obj(v).term  # live view, as CPython
                        if t.cells is None:
                            raise Unsupported("bytearray became symbolic-length during iteration")
                    if k >= len(t.cells):
                        return
                    yield t.cells[k]
                    k += 1
            else:
                k = 0
                while True:
                    if k > MAX_SYMBOLIC_TURNS:
                        raise Unsupported("unwinding bound reached iterating a symbolic-length buffer (needs an invariant)")
                    if not self.ctx.branch(cmp("<", k, t.length)):
                        return
                    yield t.get(k)
                    k += 1

    # ---------------------------------------------------------------- with / try
    def st_With(self, st, frame):
        if len(st.items) != 1:
            raise Unsupported("multi-item with")
        item = st.items[0]
        mgr = self.eval(item.context_expr, frame)
        if isinstance(mgr, FileVal):
            if item.optional_vars is not None:
                self.assign(item.optional_vars, mgr, frame)
            self.exec_block(st.body, frame)
            return
        enter = self.getattr_(mgr, "__enter__")
        val = self.call(enter, [], {})
        if item.optional_vars is not None:
            self.assign(item.optional_vars, val, frame)
        try:
            self.exec_block(st.body, frame)
        except (PyRaise, ReturnSig, BreakSig, ContinueSig):
            self.call(self.getattr_(mgr, "__exit__"), [None, None, None], {})
            raise
        self.call(self.getattr_(mgr, "__exit__"), [None, None, None], {})

    def st_Try(self, st, frame):
        if st.finalbody:
            raise Unsupported("try/finally")
        try:
            self.exec_block(st.body, frame)
        except PyRaise as e:
            from .core import exc_isinstance
            for h in st.handlers:
                names = []
                if h.type is None:
                    names = ["Exception"]
                elif isinstance(h.type, ast.Tuple):
                    names = [self._exc_name(x, frame) for x in h.type.elts]
                else:
                    names = [self._exc_name(h.type, frame)]
                if any(exc_isinstance(e.type_name, n) for n in names):
                    if h.name:
                        frame.locals[h.name] = ExcInstance(e.type_name)
                    self.exec_block(h.body, frame)
                    return
            raise
        else:
            self.exec_block(st.orelse, frame)

    def _exc_name(self, node, frame):
        v = self.eval(node, frame)
        if isinstance(v, ExcClass):
            return v.name
        raise Unsupported("except clause type")

    # ================================================================= expressions
    def lookup(self, name, frame):
        f = frame
        while f is not None:
            if name in f.locals:
                return f.locals[name]
            f = f.parent
        g = frame.module.globals
        if name in g:
            return g[name]
        if name in self.builtins:
            return self.builtins[name]
        if name in EXC_NAMES:
            return ExcClass(name)
        raise PyRaise("NameError", name)

    def eval(self, node, frame):
        m = getattr(self, "ex_" + type(node).__name__, None)
        if m is None:
            raise Unsupported("expression %s (line %s)" % (type(node).__name__, getattr(node, "lineno", "?")))
        return m(node, frame)

    def ex_Constant(self, node, frame):
        v = node.value
        if isinstance(v, bytes):
            return VBytes(bts.from_bytes(v))
        if v is Ellipsis:
            return Opaque("...")
        return v

    def ex_Name(self, node, frame):
        return self.lookup(node.id, frame)

    def ex_Tuple(self, node, frame):
        return tuple(self.eval(e, frame) for e in node.elts)

    def ex_List(self, node, frame):
        return self.ctx.alloc(HList([self.eval(e, frame) for e in node.elts]))

    def ex_Dict(self, node, frame):
        keys = [self.eval(k, frame) for k in node.keys]
        vals = [self.eval(v, frame) for v in node.values]
        return self.ctx.alloc(HDict(keys, vals))

    def ex_JoinedStr(self, node, frame):
        return VStr("fstring")

    def ex_Lambda(self, node, frame):
        return LambdaVal(node, frame)

    def ex_ListComp(self, node, frame):
        if len(node.generators) != 1:
            raise Unsupported("nested comprehension")
        g = node.generators[0]
        sub = Frame(frame.func, frame.module, frame.cls, parent=frame)
        out = []
        for item in self.iterate(self.eval(g.iter, frame)):
            self.assign(g.target, item, sub)
            if all(self.ctx.branch(ops.truthy(self, self.eval(c, sub))) for c in g.ifs):
                out.append(self.eval(node.elt, sub))
        return self.ctx.alloc(HList(out))

    def ex_Attribute(self, node, frame):
        o = self.eval(node.value, frame)
        return self.getattr_(o, self._mangle(node.attr, frame.cls))

    def ex_Subscript(self, node, frame):
        o = self.eval(node.value, frame)
        if isinstance(o, Opaque):
            return o  # typing subscripts
        if isinstance(node.slice, ast.Slice):
            s = node.slice
            lo = self.eval(s.lower, frame) if s.lower else None
            hi = self.eval(s.upper, frame) if s.upper else None
            step = self.eval(s.step, frame) if s.step else None
            return ops.get_slice(self, o, lo, hi, step)
        return ops.get_item(self, o, self.eval(node.slice, frame))

    def ex_UnaryOp(self, node, frame):
        v = self.eval(node.operand, frame)
        op = type(node.op).__name__
        if op == "Not":
            return b_not(ops.truthy(self, v))
        if isinstance(v, float):
            return {"USub": -v, "UAdd": +v}[op]
        if not ops.is_intlike(v):
            raise Unsupported("unary %s on %r" % (op, ops.type_name(self, v)))
        if op == "USub":
            return sym.neg(v)
        if op == "UAdd":
            return sym.as_int(v)
        if op == "Invert":
            return sym.binv(v)
        raise Unsupported(op)

    def ex_BinOp(self, node, frame):
        a = self.eval(node.left, frame)
        b = self.eval(node.right, frame)
        return ops.binop(self, type(node.op).__name__, a, b)

    def ex_BoolOp(self, node, frame):
        is_and = isinstance(node.op, ast.And)
        spec = frame.module.is_spec
        cur = self.eval(node.values[0], frame)
        for nxt in node.values[1:]:
            t = ops.truthy(self, cur)
            if isinstance(t, bool):
                if t != is_and:
                    return cur
                cur = self.eval(nxt, frame)
                continue
            # symbolic left operand
            if spec or self.ctx.pure:
                # specification code is total: evaluate both sides, no fork
                r = self.eval(nxt, frame)
                if ops.is_boolv(cur) and ops.is_boolv(r):
                    cur = b_and(cur, r) if is_and else b_or(cur, r)
                    continue
                if ops.is_intlike(cur) and ops.is_intlike(r):
                    cur = i_ite(t, r, cur) if is_and else i_ite(t, cur, r)
                    continue
                raise Unsupported("and/or over non-int values in spec code")
            merged = self._try_pure_eval(nxt, frame)
            if merged is not _MISSING and ops.is_intlike(cur) and ops.is_intlike(merged):
                if ops.is_boolv(cur) and ops.is_boolv(merged):
                    cur = b_and(cur, merged) if is_and else b_or(cur, merged)
                else:
                    cur = i_ite(t, merged, cur) if is_and else i_ite(t, cur, merged)
                continue
            if self.ctx.branch(t) != is_and:
                return cur
            cur = self.eval(nxt, frame)
        return cur

    def _try_pure_eval(self, node, frame, guard=None):
        """evaluate an expression only if that has no side effect, fork or exception"""
        if not _syntactically_cheap(node):
            return _MISSING
        n_ob = len(self.ctx.side_unknown)
        self.enter_pure()
        try:
            return self.eval(node, frame)
        except (ImpureAbort, PyRaise):
            del self.ctx.side_unknown[n_ob:]
            return _MISSING
        finally:
            self.leave_pure()

    def ex_Compare(self, node, frame):
        left = self.eval(node.left, frame)
        res = True
        for op, rn in zip(node.ops, node.comparators):
            right = self.eval(rn, frame)
            opn = {"Eq": "==", "NotEq": "!=", "Lt": "<", "LtE": "<=", "Gt": ">", "GtE": ">=",
                   "Is": "is", "IsNot": "is not", "In": "in", "NotIn": "not in"}[type(op).__name__]
            res = b_and(res, ops.compare(self, opn, left, right))
            if res is False:
                # Python would not evaluate the rest; they are pure here
                return False
            left = right
        return res

    def ex_IfExp(self, node, frame):
        c = ops.truthy(self, self.eval(node.test, frame))
        if isinstance(c, bool):
            return self.eval(node.body if c else node.orelse, frame)
        if frame.module.is_spec or self.ctx.pure:
            a = self.eval(node.body, frame)
            b = self.eval(node.orelse, frame)
            return self.merge_values(c, a, b)
        a = self._try_pure_eval(node.body, frame)
        b = self._try_pure_eval(node.orelse, frame) if a is not _MISSING else _MISSING
        if a is not _MISSING and b is not _MISSING:
            try:
                return self.merge_values(c, a, b)
            except ImpureAbort:
                pass
        if self.ctx.branch(c):
            return self.eval(node.body, frame)
        return self.eval(node.orelse, frame)

    # ---------------------------------------------------------------- attributes
    def getattr_(self, o, name):
        if isinstance(o, Ref):
            h = self.ctx.obj(o)
            if isinstance(h, HObj):
                p = h.cls.find_prop(name)
                if p is not None:
                    return self.call_function(p[0], [o], {})
                if name in h.fields:
                    return h.fields[name]
                f = h.cls.find_method(name)
                if f is not None:
                    return BoundMethod(o, f)
                owner, v = h.cls.find_attr(name)
                if owner is not None:
                    return self.ctx.class_state.get((owner.key, name), v)
                if name == "__class__":
                    return h.cls
                raise PyRaise("AttributeError", name)
            return BoundBuiltin(o, name)
        if isinstance(o, ClassInfo):
            p = o.find_prop(name)
            if p is not None:
                return PropRef(name, p[0], p[1])
            f = o.find_method(name)
            if f is not None:
                return f
            owner, v = o.find_attr(name)
            if owner is not None:
                return self.ctx.class_state.get((owner.key, name), v)
            if name == "__name__":
                return o.name
            raise PyRaise("AttributeError", name)
        if isinstance(o, ModuleInfo):
            if name in o.globals:
                return o.globals[name]
            raise PyRaise("AttributeError", name)
        if isinstance(o, ModuleVal):
            key = "$%s.%s" % (o.name, name)
            if key in self.builtins:
                return self.builtins[key]
            if o.name == "struct" and name == "error":
                return ExcClass("struct.error")
            raise Unsupported("module attribute %s.%s" % (o.name, name))
        if isinstance(o, SuperProxy):
            rh = self.ctx.obj(o.recv)
            p = rh.cls.find_prop(name, after=o.cls)
            if p is not None:
                return self.call_function(p[0], [o.recv], {})
            f = rh.cls.find_method(name, after=o.cls)
            if f is not None:
                return BoundMethod(o.recv, f)
            if name in ("__init__",):
                return self.builtins["$noop"]
            raise PyRaise("AttributeError", "super()." + name)
        if isinstance(o, TypeOfVal):
            if name == "__name__":
                return o.name
        if isinstance(o, Opaque):
            return Opaque(o.name + "." + name)
        if isinstance(o, (VBytes, bytes, int, SInt, SBool, str, VStr, tuple, float)):
            return BoundBuiltin(o, name)
        if isinstance(o, FileVal):
            return BoundBuiltin(o, name)
        raise Unsupported("attribute %s on %r" % (name, o))

    def setattr_(self, o, name, v):
        if isinstance(o, Ref):
            h = self.ctx.obj(o)
            if isinstance(h, HObj):
                p = h.cls.find_prop(name)
                if p is not None:
                    if p[1] is None:
                        raise PyRaise("AttributeError", "can't set attribute " + name)
                    self.call_function(p[1], [o, v], {})
                    return
                self.ctx.mutate(o, name).fields[name] = v
                return
        if isinstance(o, ClassInfo):
            if self.ctx.pure:
                raise ImpureAbort()
            owner, _ = o.find_attr(name)
            self.ctx.class_state[((owner or o).key, name)] = v
            return
        raise Unsupported("attribute assignment on %r" % (o,))

    # ---------------------------------------------------------------- calls
    def ex_Call(self, node, frame):
        # super() needs the frame
        if isinstance(node.func, ast.Name) and node.func.id == "super" and not node.args:
            if frame.func is None or frame.func.cls is None:
                raise Unsupported("super() outside a method")
            first = frame.func.node.args.args[0].arg
            return SuperProxy(frame.func.cls, frame.locals[first])
        fn = self.eval(node.func, frame)
        args = []
        for a in node.args:
            if isinstance(a, ast.Starred):
                args.extend(self.unpack_any(self.eval(a.value, frame)))
            else:
                args.append(self.eval(a, frame))
        kwargs = {}
        for k in node.keywords:
            if k.arg is None:
                raise Unsupported("**kwargs")
            kwargs[k.arg] = self.eval(k.value, frame)
        return self.call(fn, args, kwargs, node=node, frame=frame)

    def unpack_any(self, v):
        return list(self.iterate(v))

    def call(self, fn, args, kwargs, node=None, frame=None):
        if isinstance(fn, FuncInfo):
            return self.call_function(fn, args, kwargs)
        if isinstance(fn, BoundMethod):
            return self.call_function(fn.func, [fn.recv] + list(args), kwargs)
        if isinstance(fn, BuiltinFn):
            return fn.fn(self, args, kwargs)
        if isinstance(fn, BuiltinType):
            return self.bi.call_type(self, fn, args, kwargs)
        if isinstance(fn, BoundBuiltin):
            return self.bi.call_method(self, fn.recv, fn.name, args, kwargs)
        if isinstance(fn, ClassInfo):
            return self.instantiate(fn, args, kwargs)
        if isinstance(fn, LambdaVal):
            sub = Frame(fn.frame.func, fn.frame.module, fn.frame.cls, parent=fn.frame)
            params = [a.arg for a in fn.node.args.args]
            if len(params) != len(args):
                raise PyRaise("TypeError", "lambda arity")
            for p, a in zip(params, args):
                sub.locals[p] = a
            return self.eval(fn.node.body, sub)
        if isinstance(fn, ExcClass):
            return ExcInstance(fn.name)
        if isinstance(fn, Opaque):
            raise Unsupported("call of external %s" % fn.name)
        raise Unsupported("call of %r" % (fn,))

    def instantiate(self, cls, args, kwargs):
        ref = self.ctx.alloc(HObj(cls))
        init = cls.find_method("__init__")
        if init is not None:
            self.call_function(init, [ref] + list(args), kwargs)
        elif args or kwargs:
            raise PyRaise("TypeError", "takes no arguments")
        return ref

    def bind_args(self, fi, args, kwargs, frame):
        a = fi.node.args
        if a.kwonlyargs or a.kwarg or getattr(a, "posonlyargs", None):
            raise Unsupported("kw-only / **kwargs parameters in " + fi.key)
        params = [p.arg for p in a.args]
        ndef = len(a.defaults)
        defaults = {}
        for p, d in zip(params[len(params) - ndef:], a.defaults):
            defaults[p] = d
        if len(args) > len(params):
            if a.vararg is None:
                raise PyRaise("TypeError", "too many positional arguments for " + fi.key)
            frame.locals[a.vararg.arg] = tuple(args[len(params):])
            args = args[:len(params)]
        elif a.vararg is not None:
            frame.locals[a.vararg.arg] = ()
        for p, v in zip(params, args):
            frame.locals[p] = v
        for k, v in kwargs.items():
            if k not in params:
                raise PyRaise("TypeError", "unexpected keyword " + k)
            if k in frame.locals:
                raise PyRaise("TypeError", "multiple values for " + k)
            frame.locals[k] = v
        dframe = Frame(None, fi.module, fi.cls)
        for p in params:
            if p not in frame.locals:
                if p in defaults:
                    frame.locals[p] = self.eval(defaults[p], dframe)
                else:
                    raise PyRaise("TypeError", "missing argument %s of %s" % (p, fi.key))

    def call_function(self, fi, args, kwargs, force_inline=False):
        """apply the call policy: spec code is always executed; repository code only as the
        policy says (inline / by reference function / by predicate contract)"""
        if not force_inline and not fi.is_spec and self.ctx.policy is not None:
            dec = self.ctx.policy(self, fi, args, kwargs)
            if dec is not None:
                kind = dec[0]
                if kind == "ref":
                    # bind with the TARGET's signature (its defaults), then hand the reference
                    # function the same positional values
                    tmp = Frame(fi, fi.module, fi.cls)
                    self.bind_args(fi, args, kwargs, tmp)
                    full = [tmp.locals[a.arg] for a in fi.node.args.args]
                    nref = len(dec[1].node.args.args)
                    if len(dec) > 2 and dec[2] is not None:
                        # the callee's contract was proved under this precondition: prove it here
                        npre = len(dec[2].node.args.args)
                        ok = ops.truthy(self, self.call_function(dec[2], full[:npre], {}, force_inline=True))
                        self.ctx.oblige("%s.callsite[%s]" % (self.ctx.ghost.get("contract_name", "?"), fi.key), ok,
                                        info={"callsite": self.ctx.cur_func})
                    return self.call_function(dec[1], full[:nref], {}, force_inline=True)
                if kind == "custom":
                    return dec[1](self, fi, args, kwargs)
                if kind != "inline":
                    raise Unsupported("bad policy decision for " + fi.key)
        if self.ctx.depth > MAX_DEPTH:
            raise Unsupported("call depth exceeded at " + fi.key)
        frame = Frame(fi, fi.module, fi.cls, parent=fi.closure)
        self.bind_args(fi, args, kwargs, frame)
        self.ctx.depth += 1
        saved_func = self.ctx.cur_func
        self.ctx.cur_func = fi.key
        try:
            self.exec_block(fi.node.body, frame)
        except ReturnSig as r:
            return r.value
        finally:
            self.ctx.depth -= 1
            self.ctx.cur_func = saved_func
        return None


class _Missing:
    def __repr__(self):
        return "<missing>"


_MISSING = _Missing()


class RangeVal:
    def __init__(self, start, stop, step):
        self.start, self.stop, self.step = start, stop, step


class EnumVal:
    def __init__(self, inner, start=0):
        self.inner = inner
        self.start = start


class DictItems:
    def __init__(self, ref, kind):
        self.ref = ref
        self.kind = kind


class FileVal:
    """ghost file (C16 persistence): an append-only byte string"""
    def __init__(self, name, mode, content=None):
        self.name = name
        self.mode = mode
        self.content = content


def _syntactically_cheap(node):
    """expressions whose evaluation cannot call repository code"""
    for n in ast.walk(node):
        if isinstance(n, ast.Call):
            f = n.func
            if isinstance(f, ast.Name) and f.id in ("bool", "int", "len", "min", "max", "abs", "isinstance"):
                continue
            return False
        if isinstance(n, (ast.Lambda, ast.ListComp, ast.Await, ast.Yield)):
            return False
    return True
