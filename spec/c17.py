"""C17 -- the per-call clauses of the mesh API (lookups, release, check_connection, write, send).

The headline clause (every joining node obtains a distinct address within the timeout, under
arbitrary join orders and jitter) is a multi-node liveness property and is NOT decided here
(DESIGN 6); its safety half rests on C16 (no two IDs share an address in the master's table) and on
the master-side contracts of spec/mesh.py (lookup replies, release)."""
from pyvc.cdef import Contract, LoopSpec
from pyvc.schema import Int, Bool, Const, Bytes, ByteArray, Obj, OneOf
from pyvc.specrt import implies, ite, oracle_int, require, assume, class_attr, set_class_attr, clock_now, clock_ns_of
from spec.net_ref import valid_node, valid_address
from spec.net_state import node_ok
from spec.c07 import req_update, havoc_update, fixed_cfg, abs_begin, begin_effects, begin_havoc, oracle_bytes
from spec.mesh import mesh_schema, MPOL, abs_write_m, abs_net_update_m, DEFAULT, d_inv, lookup_id, lookup_addr, same_table

NM = "rf24_mesh:RF24MeshNoMaster"
MM = "rf24_mesh:RF24Mesh"
L2M = {"l_calls": Const(0), "l_num": Const(0), "l_type": Const(0), "l_ret": Const(0)}


def abs_lookup_2_master(self, number, lookup_type):
    """contract of _lookup_2_master (C17._lookup_2_master): node stays listening, returns -1 or a
    16-bit signed answer; ghost record of the request"""
    require(node_ok(self) and self._addr != DEFAULT, "_lookup_2_master: connected, listening")
    require(0 <= number and number <= ite(lookup_type == 198, 65535, 255), "_lookup_2_master: number fits the request format")
    self.l_calls = self.l_calls + 1
    self.l_num = number
    self.l_type = lookup_type
    havoc_update(self)
    assume(node_ok(self))
    r = oracle_int(-32768, 32767)
    self.l_ret = r
    return r


def nm_schema(**kw):
    return mesh_schema(cls=NM, **kw)


def with_l2m(sch):
    sch.fields.update(L2M)
    return sch


# ---- lookup_address / lookup_node_id

def req_lookup_id_arg(self, node_id):
    return req_update(self) and (node_id is None or (0 <= node_id and node_id <= 255))


def ens_lookup_address(self, old_self, node_id, result, exc):
    """ID 0 / None -> 0; an unconnected node -> -2 without traffic; else the master's answer"""
    if exc is not None:
        return False
    if node_id is None or node_id == 0:
        return result == 0 and self.l_calls == 0 and self.g_writes == 0
    if old_self._addr == DEFAULT:
        return result == -2 and self.l_calls == 0 and self.g_writes == 0
    return self.l_calls == 1 and self.l_num == node_id and self.l_type == 196 and result == self.l_ret and node_ok(self)


def req_lookup_addr_arg(self, address):
    return req_update(self) and (address is None or (0 <= address and address <= 65535))


def ens_lookup_node_id(self, old_self, address, result, exc):
    """None -> own ID; 0 -> 0; unconnected -> -2 without traffic; else the master's answer"""
    if exc is not None:
        return False
    if address is None:
        return result == old_self._id and self.l_calls == 0
    if address == 0:
        return result == 0 and self.l_calls == 0
    if old_self._addr == DEFAULT:
        return result == -2 and self.l_calls == 0 and self.g_writes == 0
    return self.l_calls == 1 and self.l_num == address and self.l_type == 198 and result == self.l_ret and node_ok(self)


def ens_master_lookup_address(self, old_self, node_id, result, exc):
    """on the master: the table's mapping, -2 for an unknown ID, 0 for ID 0/None; table untouched"""
    od = old_self.dhcp_dict
    if exc is not None:
        return False
    want = ite(node_id is None, 0, ite(zero(node_id), 0, lookup_id(od, ite(node_id is None, 0, node_id))))
    return result == want and same_table(self.dhcp_dict, od) and self.g_writes == 0


def zero(x):
    if x is None:
        return True
    return x == 0


def ens_master_lookup_node_id(self, old_self, address, result, exc):
    od = old_self.dhcp_dict
    if exc is not None:
        return False
    if address is None:
        return result == 0
    want = ite(address == 0, 0, lookup_addr(od, address))
    return result == want and same_table(self.dhcp_dict, od) and self.g_writes == 0


def req_master(self):
    return req_update(self) and self._id == 0 and self._addr == 0 and d_inv(self.dhcp_dict)


# ---- _lookup_2_master

def req_l2m(self, number, lookup_type):
    return (req_update(self) and self._addr != DEFAULT and 0 <= number
            and number <= ite(lookup_type == 198, 65535, 255))


def inv_l2m_wait(self):
    return node_ok(self) and self.g_writes == 1


def l2m_fixed(self):
    return fixed_cfg(self) + (self.g_writes, self.g_to, self.g_type, self.g_h_to, self.g_h_from, self.g_h_type, self.g_msg)


def ens_l2m(self, old_self, number, lookup_type, result, exc):
    """one request to node 0 (type 196 with the 1-byte ID / 198 with the LE16 address), then -1 if
    it could not be sent or no answer came in time, else the signed 16-bit answer"""
    if exc is not None:
        return False
    req_ok = (self.g_writes == 1 and self.g_to == 0 and self.g_type == 0 and self.g_h_to == 0
              and self.g_h_from == old_self._addr and self.g_h_type == lookup_type
              and self.g_msg == ite(lookup_type == 198, bytes([number % 256, number // 256]), bytes([number % 256]))[:ite(lookup_type == 198, 2, 1)])
    return req_ok and node_ok(self) and -32768 <= result and result <= 32767


# ---- release_address (non-master)

def ens_release(self, old_self, result, exc):
    """connected: one MESH_ADDR_RELEASE to node 0; on success the node is back on the unassigned
    address; otherwise nothing changes and False"""
    if exc is not None:
        return False
    if old_self._addr == DEFAULT:
        return result == False and self.g_writes == 0 and self._addr == DEFAULT
    sent = (self.g_writes == 1 and self.g_to == 0 and self.g_type == 0 and self.g_h_type == 197 and self.g_h_to == 0
            and self.g_h_from == old_self._addr and len(self.g_msg) == 0)
    return sent and node_ok(self) and ite(result, self._addr == DEFAULT, self._addr == old_self._addr)


# ---- check_connection

def req_check(self, attempts, ping_master):
    return req_update(self) and 0 <= attempts and attempts <= 3


def ens_check(self, old_self, attempts, result, exc):
    """the master is always connected; an unconnected node reports False without traffic"""
    if exc is not None:
        return False
    if old_self._id == 0:
        return result == True and self.g_writes == 0 and self.l_calls == 0
    if old_self._addr == DEFAULT:
        return result == False and self.g_writes == 0 and self.l_calls == 0
    return node_ok(self) and implies(attempts == 0, result == False)


# ---- write / send

def req_mesh_write(self, to_node, message_type, message):
    return req_update(self) and self.max_message_length >= 24 and 0 <= message_type and message_type <= 255 and 0 <= to_node and to_node <= 0xFFFF


def ens_mesh_write(self, old_self, to_node, message_type, old_message, result, exc):
    """unconnected or invalid destination -> False, nothing sent; else a fresh header (to_node,
    type, from = this node) and the message are handed to _write(to_node, TX_NORMAL) once"""
    n = len(old_message)
    if exc is not None:
        return exc == "ValueError" and n > old_self.max_message_length and self.g_writes == 0
    if old_self._addr == DEFAULT or not valid_address(to_node):
        return result == False and self.g_writes == 0
    trunc = n > 24 and not old_self._frag_enabled
    want = ite(trunc, bytes(old_message)[:24], bytes(old_message))
    # a FRESH header: the next frame id of the process-wide counter (a receiver drops a frame whose
    # origin, id and type repeat a queued one), reserved byte 0
    fresh = (self.g_h_id == old_self.g_id0 and self.g_h_res == 0
             and class_attr(HDR, "_RF24NetworkHeader__next_id") == (old_self.g_id0 + 1) % 65536)
    return (self.g_writes == 1 and self.g_to == to_node and self.g_type == 0 and self.g_h_to == to_node and fresh
            and self.g_h_from == old_self._addr and self.g_h_type == message_type and self.g_msg == want and node_ok(self))


HDR = "structs:RF24NetworkHeader"


def setup_next_id(self):
    """the frame-id counter of RF24NetworkHeader is an arbitrary 16-bit value"""
    set_class_attr(HDR, "_RF24NetworkHeader__next_id", self.g_id0)


def with_id0(sch):
    sch.fields["g_id0"] = Int(0, 0xFFFF)
    return sch


R = "spec.c17:"
POL17 = dict(MPOL)
POL17["rf24_mesh:RF24MeshNoMaster._lookup_2_master"] = "ref:" + R + "abs_lookup_2_master"
POL17["structs:RF24NetworkHeader.__init__"] = "inline"
IDARG = OneOf(Const(None), Int(0, 255))
ADARG = OneOf(Const(None), Int(0, 65535))
LOOPS_L2M = {(NM + "._lookup_2_master", 0): LoopSpec(R + "inv_l2m_wait", havoc=["spec.c07:havoc_update"], frame=R + "l2m_fixed", variant="spec.c07:var_deadline")}

CONTRACTS = [
    Contract("C17.lookup_address", NM + ".lookup_address", {"self": with_l2m(nm_schema()), "node_id": IDARG},
             requires=[R + "req_lookup_id_arg"], ensures=[("codes", R + "ens_lookup_address")], raises=(), policy=POL17, props=["C17"], replayable=False),
    Contract("C17.lookup_node_id", NM + ".lookup_node_id", {"self": with_l2m(nm_schema()), "address": ADARG},
             requires=[R + "req_lookup_addr_arg"], ensures=[("codes", R + "ens_lookup_node_id")], raises=(), policy=POL17, props=["C17"], replayable=False),
    Contract("C17.master.lookup_address", MM + ".lookup_address", {"self": with_l2m(mesh_schema(node_id=Const(0), addr=Const(0))), "node_id": IDARG},
             requires=[R + "req_master"], ensures=[("mapping", R + "ens_master_lookup_address")], raises=(), policy=POL17, props=["C17"], replayable=False),
    Contract("C17.master.lookup_node_id", MM + ".lookup_node_id", {"self": with_l2m(mesh_schema(node_id=Const(0), addr=Const(0))), "address": ADARG},
             requires=[R + "req_master"], ensures=[("mapping", R + "ens_master_lookup_node_id")], raises=(), policy=POL17, props=["C17"], replayable=False),
    Contract("C17._lookup_2_master", NM + "._lookup_2_master",
             {"self": nm_schema(), "number": Int(0, 65535), "lookup_type": OneOf(Const(196), Const(198))},
             requires=[R + "req_l2m"], ensures=[("request_and_codes", R + "ens_l2m")], raises=(), policy=MPOL, loops=LOOPS_L2M,
             props=["C17", "C07", "C15"], replayable=False),
    Contract("C17.release_address", NM + ".release_address", {"self": nm_schema()}, requires=["spec.c07:req_update"],
             ensures=[("release", R + "ens_release")], raises=(), policy=MPOL, props=["C17", "C07"], replayable=False),
    Contract("C17.check_connection", NM + ".check_connection",
             {"self": with_l2m(nm_schema()), "attempts": Int(0, 3), "ping_master": Bool()},
             requires=[R + "req_check"], ensures=[("connected", R + "ens_check")], raises=(), policy=POL17, props=["C17", "C07"], replayable=False),
    Contract("C17.write", NM + ".write",
             {"self": with_id0(nm_schema()), "to_node": Int(0, 0xFFFF), "message_type": Int(0, 255), "message": OneOf(Bytes(0, 6000), ByteArray(0, 6000))},
             setup=[R + "setup_next_id"], requires=[R + "req_mesh_write"], ensures=[("handed_over", R + "ens_mesh_write")], raises=("ValueError",), policy=MPOL,
             props=["C17", "C07"], replayable=False),
]


# ---- renew_address: the joining node must listen on the unassigned address while it asks

def abs_request_address(self, level):
    """contract of _request_address as renew_address needs it: the poll and address responses are
    sent to 0o4444, so the node must be listening THERE when it asks; afterwards it is listening
    on the adopted address (True) or still on 0o4444 (False)"""
    require(node_ok(self) and self._addr == DEFAULT, "_request_address: listening on the unassigned address 0o4444")
    require(0 <= level and level <= 4, "_request_address: level 0..4")
    havoc_update(self)
    ok = oracle_int(0, 1) == 1
    if ok:
        abs_begin(self, oracle_valid_node())
        assume(self._addr != DEFAULT)
    assume(node_ok(self))
    return ok


def oracle_valid_node():
    a = oracle_int(1, 4095)
    assume(valid_node(a))
    return a


def req_renew(self, timeout):
    return req_update(self)


def inv_renew(self, total_requests, request_count):
    return node_ok(self) and self._addr == DEFAULT and 0 <= total_requests and total_requests <= 9 and 0 <= request_count and request_count <= 3


def var_deadline_s(end_timer):
    """time left until a deadline kept in float seconds (`timeout + time.monotonic()`), on the ghost clock"""
    return clock_ns_of(end_timer) - clock_now()


def havoc_renew(self):
    havoc_update(self)


def renew_fixed(self):
    return fixed_cfg(self) + (self._id,)


def ens_renew(self, old_self, result, exc):
    """returns the adopted (valid) address or None; the node is listening either way, and on the
    unassigned address when it gave up"""
    if exc is not None:
        return False
    if result is None:
        return node_ok(self) and self._addr == DEFAULT
    return node_ok(self) and result == self._addr and valid_node(self._addr) and self._addr != DEFAULT


POL_RENEW = dict(MPOL)
POL_RENEW["rf24_mesh:RF24MeshNoMaster._request_address"] = "ref:" + R + "abs_request_address"
POL_RENEW["mixins:NetworkMixin._begin"] = "ref:spec.c07:abs_begin"
CONTRACTS.append(
    Contract("C17.renew_address", NM + ".renew_address", {"self": nm_schema(node_id=Int(1, 255)), "timeout": Int(0, 100)},
             requires=[R + "req_renew"], ensures=[("joined_or_unassigned", R + "ens_renew")], raises=(), policy=POL_RENEW,
             loops={(NM + ".renew_address", 0): LoopSpec(R + "inv_renew", havoc=[R + "havoc_renew"], frame=R + "renew_fixed", variant=R + "var_deadline_s")},
             props=["C17", "C07", "C15"], replayable=False))


# ---- send(): resolve the node ID through the master, then write() to that ADDRESS

W = {"w_calls": Const(0), "w_to": Const(0), "w_type": Const(0), "w_msg": Const(b"")}


def with_w(sch):
    sch.fields.update(W)
    return sch


def abs_lookup_address(self, node_id):
    """contract of lookup_address() as proved by C17.lookup_address (codes)"""
    require(req_lookup_id_arg(self, node_id), "lookup_address: node listening, ID None or 0..255")
    if node_id is None:
        return 0
    if node_id == 0:
        return 0
    if self._addr == DEFAULT:
        return -2
    self.l_calls = self.l_calls + 1
    self.l_num = node_id
    self.l_type = 196
    havoc_update(self)
    assume(node_ok(self))
    r = oracle_int(-32768, 32767)
    self.l_ret = r
    return r


def abs_mesh_write(self, to_node, message_type, message):
    """contract of the mesh write() as proved by C17.write (handed_over) + a ghost record"""
    require(req_mesh_write(self, to_node, message_type, message) and len(message) <= self.max_message_length,
            "write: node listening, address 0..0xFFFF, type 0..255, message fits")
    self.w_calls = self.w_calls + 1
    self.w_to = to_node
    self.w_type = message_type
    self.w_msg = bytes(message)
    havoc_update(self)
    assume(node_ok(self))
    return oracle_int(0, 1) == 1


def req_mesh_send(self, to_node, message_type, message):
    return (req_update(self) and self.max_message_length >= 24 and 0 <= message_type and message_type <= 255
            and 0 <= to_node and to_node <= 255 and len(message) <= self.max_message_length)


def inv_send_lookup(self, to_node, to_node_addr, retry_delay):
    return (node_ok(self) and self._addr != DEFAULT and self.w_calls == 0 and retry_delay >= 5
            and -32768 <= to_node_addr and to_node_addr <= 32767
            and implies(to_node_addr >= 0, self.l_calls >= 1 and self.l_ret == to_node_addr)
            and implies(self.l_calls >= 1, self.l_num == to_node and self.l_type == 196))


def havoc_send_lookup(self):
    havoc_update(self)
    self.l_calls = oracle_int(0, 1 << 40)
    self.l_num = oracle_int(0, 65535)
    self.l_type = oracle_int(0, 255)
    self.l_ret = oracle_int(-32768, 32767)


def send_fixed(self):
    return fixed_cfg(self) + (self._addr, self._id, self.w_calls, self.w_to, self.w_type, self.w_msg)


def ens_mesh_send(self, old_self, to_node, message_type, old_message, result, exc):
    """C17: "a message sent to its node ID arrives at that node".  Unconnected -> False, nothing
    sent.  ID 0 -> written to the master (address 0); own ID -> own address; any other ID -> the
    address the master answered for exactly that ID (lookup type 196), or False with nothing
    written when no non-negative answer came before the timeout.  Type and message are passed on
    unchanged, exactly one write()."""
    if exc is not None:
        return False
    if old_self._addr == DEFAULT:
        return result == False and self.w_calls == 0 and self.l_calls == 0
    handed = self.w_calls == 1 and self.w_type == message_type and self.w_msg == bytes(old_message) and node_ok(self)
    if to_node == old_self._id:
        return handed and self.w_to == old_self._addr and self.l_calls == 0
    if to_node == 0:
        return handed and self.w_to == 0 and self.l_calls == 0
    gave_up = self.w_calls == 0 and result == False and node_ok(self)
    resolved = (handed and self.l_calls >= 1 and self.l_num == to_node and self.l_type == 196
                and self.l_ret >= 0 and self.w_to == self.l_ret)
    return gave_up or resolved


POL_SEND = dict(MPOL)
POL_SEND[NM + ".lookup_address"] = "ref:" + R + "abs_lookup_address"
POL_SEND[NM + ".write"] = "ref:" + R + "abs_mesh_write"
CONTRACTS.append(
    Contract("C17.send", NM + ".send",
             {"self": with_w(with_l2m(nm_schema())), "to_node": Int(0, 255), "message_type": Int(0, 255),
              "message": OneOf(Bytes(0, 6000), ByteArray(0, 6000))},
             requires=[R + "req_mesh_send"], ensures=[("to_the_looked_up_address", R + "ens_mesh_send")], raises=(), policy=POL_SEND,
             loops={(NM + ".send", 0): LoopSpec(R + "inv_send_lookup", havoc=[R + "havoc_send_lookup"], frame=R + "send_fixed", variant="spec.c07:var_deadline")},
             props=["C17", "C07"], replayable=False))


# ---- joining: _make_contact (poll a level) and _request_address (ask each responder in turn)

def req_contact(self, lvl):
    return req_update(self) and self._addr == DEFAULT and 0 <= lvl and lvl <= 4


def all_valid(s):
    ok = True
    for a in s:
        ok = ok and valid_address(a)
    return ok


def inv_contact(self, responders):
    return node_ok(self) and self._addr == DEFAULT and len(responders) <= 4 and all_valid(responders)


def havoc_contact(self, responders):
    """an arbitrary set of at most MESH_MAX_POLL distinct responders seen so far"""
    havoc_update(self)
    responders.clear()
    k = oracle_int(0, 4)
    for i in range(4):
        if i < k:
            a = oracle_int(0, 0xFFFF)
            assume(valid_address(a) and a not in responders)
            responders.add(a)


def contact_fixed(self):
    return fixed_cfg(self) + (self._addr, self._id)


def ens_contact(self, old_self, result, exc):
    """the poll goes out as a multicast from the unassigned address; the result holds only origins
    of validated NETWORK_POLL replies (at most MESH_MAX_POLL); the node keeps listening on 0o4444"""
    if exc is not None:
        return False
    sent = (self.g_writes == 1 and self.g_type == 4 and self.g_h_to == 0o100 and self.g_h_from == DEFAULT
            and self.g_h_type == 194 and len(self.g_msg) == 0)
    return sent and node_ok(self) and self._addr == DEFAULT and len(result) <= 4 and all_valid(result)


def abs_make_contact(self, lvl):
    """contract of _make_contact (C17._make_contact): a set of validated addresses, still
    listening on 0o4444.  Returns the empty set or ONE arbitrary responder: the caller's loop over
    the set is proved for an arbitrary element by the for-each invariant rule, so the number of
    responders is immaterial."""
    require(req_contact(self, lvl), "_make_contact: listening on the unassigned address, level 0..4")
    havoc_update(self)
    assume(node_ok(self))
    s = set()
    if oracle_int(0, 1) == 1:
        a = oracle_int(0, 0xFFFF)
        assume(valid_address(a))
        s.add(a)
    return s


def abs_net_update_join(self):
    """_net_update() while joining.  ENVIRONMENT ASSUMPTION (C17's premise: the frames on the
    air come from a running master and joined nodes of this library on a loss-free medium): a
    MESH_ADDR_RESPONSE carries a 2-byte valid node address other than 0o4444 -- what the master's
    _dhcp() is proved to send (C16._dhcp.*: reply shape) and routing nodes forward unchanged
    (C05.update.forward)"""
    t = abs_net_update_m(self)
    m = bytes(self.frame_buf.message) + b"\x00\x00"
    a = m[0] + 256 * m[1]
    assume(implies(t == 128, len(self.frame_buf.message) >= 2 and valid_node(a) and a != DEFAULT))
    return t


def req_request(self, level):
    return req_update(self) and self._addr == DEFAULT and 0 <= level and level <= 4


def inv_req_contacts(self, new_addr):
    """between two responders: still unassigned and listening; a response accepted earlier (kept in
    new_addr, the code does not reset it) is a valid node address"""
    return (node_ok(self) and self._addr == DEFAULT
            and (new_addr is None or (valid_node(new_addr) and new_addr != DEFAULT)))


def inv_req_wait(self, new_addr, contact):
    return inv_req_contacts(self, new_addr) and valid_address(contact)


def havoc_req(self):
    havoc_update(self)
    self.l_calls = oracle_int(0, 1 << 40)
    self.l_num = oracle_int(0, 65535)
    self.l_type = oracle_int(0, 255)
    self.l_ret = oracle_int(-32768, 32767)
    self.g_writes = oracle_int(0, 1 << 40)
    self.g_to = oracle_int(0, 0xFFFF)
    self.g_to2 = oracle_int(0, 0xFFFF)
    self.g_same = oracle_int(0, 1) == 1
    self.g_type = oracle_int(0, 4)
    self.g_h_to = oracle_int(0, 0xFFFF)
    self.g_h_from = oracle_int(0, 0xFFFF)
    self.g_h_type = oracle_int(0, 255)
    self.g_h_res = oracle_int(0, 255)
    self.g_h_id = oracle_int(0, 0xFFFF)
    self.g_msg = oracle_bytes(0, 24)


def req_fixed(self):
    return fixed_cfg(self) + (self._id,)


def havoc_req_outer(self):
    """one turn of the loop over the responders may adopt an address and drop it again: _begin()
    re-programs the retry delay (the other registers it writes are functions of the address)"""
    havoc_req(self)
    # adopted and dropped again -- _begin(new_addr); _begin(0o4444) -- or untouched: every register and
    # field _begin() writes is arbitrary; the invariant (listening on 0o4444) pins the address-derived
    # ones again, the retry delay and the multicast level stay free
    begin_havoc(self, DEFAULT)


def req_fixed_outer(self):
    r = self._rf24
    hw = r._spi.hw
    g = hw.reg
    return (g[3], g[5], g[6], g[0x11], g[0x12], g[0x13], g[0x14], g[0x15], g[0x16], g[0x1C], g[0x1D],
            self._addr, bytes(self.address_prefix), bytes(self.address_suffix), self.allow_multicast, self._id)


def ens_request(self, old_self, result, exc):
    """True: the node listens on a valid address that the master confirmed to be leased to THIS
    node's ID (the answer to the last lookup of that address was the own ID); False: the node is
    back on / still on the unassigned address, listening"""
    if exc is not None:
        return False
    if result:
        return (node_ok(self) and self._addr != DEFAULT and valid_node(self._addr) and self.l_calls >= 1
                and self.l_type == 198 and self.l_num == self._addr and self.l_ret == old_self._id)
    return node_ok(self) and self._addr == DEFAULT


POL_CONTACT = dict(MPOL)
POL_REQ = dict(POL17)
POL_REQ[NM + "._make_contact"] = "ref:" + R + "abs_make_contact"
POL_REQ["mixins:NetworkMixin._net_update"] = "ref:" + R + "abs_net_update_join"
POL_REQ["rf24_mesh:_get_level"] = "inline"
POL_REQ["rf24_mesh:RF24MeshNoMaster._request_address._get_level"] = "inline"
NEWADDR = OneOf(Const(None), Int(0, 0xFFFF))
CONTRACTS += [
    Contract("C17._make_contact", NM + "._make_contact", {"self": nm_schema(addr=Const(DEFAULT)), "lvl": Int(0, 4)},
             requires=[R + "req_contact"], ensures=[("validated_responders", R + "ens_contact")], raises=(), policy=POL_CONTACT,
             loops={(NM + "._make_contact", 0): LoopSpec(R + "inv_contact", havoc=[R + "havoc_contact"], frame=R + "contact_fixed", variant="spec.c07:var_deadline")},
             props=["C17", "C07", "C15"], replayable=False),
    Contract("C17._request_address", NM + "._request_address",
             {"self": with_l2m(nm_schema(addr=Const(DEFAULT), node_id=Int(1, 255))), "level": Int(0, 4)},
             requires=[R + "req_request"], ensures=[("confirmed_or_unassigned", R + "ens_request")], raises=(), policy=POL_REQ,
             loops={(NM + "._request_address", 1): LoopSpec(R + "inv_req_contacts", havoc=[R + "havoc_req_outer"], frame=R + "req_fixed_outer",
                                                            locals={"new_addr": NEWADDR}),
                    (NM + "._request_address", 2): LoopSpec(R + "inv_req_wait", havoc=[R + "havoc_req"], frame=R + "req_fixed",
                                                            locals={"new_addr": NEWADDR}, variant="spec.c07:var_deadline")},
             props=["C17", "C07", "C15"], replayable=False),
]


# ---- mesh constructors: a new master listens on address 0 with an empty table, a new node on 0o4444

def req_mesh_init(self, spi, csn_pin, ce_pin, node_id, spi_frequency):
    from spec.rf24_state import hw_ranges
    return hw_ranges(spi.hw) and same_object(ce_pin.hw, spi.hw) and 0 <= node_id and node_id <= 255


def ens_mesh_init(self, node_id, exc):
    return (exc is None and node_ok(self) and self._id == node_id and self._addr == ite(node_id == 0, 0, DEFAULT)
            and len(self.dhcp_dict) == 0 and d_inv(self.dhcp_dict) and self._do_dhcp == False and bool(self.ret_sys_msg))


from pyvc.specrt import same_object  # noqa: E402
from pyvc.schema import Obj  # noqa: E402
from spec.rf24_state import radio_schema  # noqa: E402
from spec.c07 import NET_INIT_POL  # noqa: E402

MESH_INIT_POL = dict(NET_INIT_POL)
MESH_INIT_POL.update({"rf24_mesh:RF24Mesh.__init__": "inline", "rf24_mesh:RF24MeshNoMaster.__init__": "inline"})
CONTRACTS.append(
    Contract("C17.master.init", MM + ".__init__",
             {"self": Obj(MM, {}), "spi": Obj("spec.hw:SpiStub", {"hw": radio_schema()}), "csn_pin": Const(None),
              "ce_pin": Obj("spec.hw:Pin", {"hw": radio_schema()}), "node_id": Int(0, 255), "spi_frequency": Const(10000000)},
             requires=[R + "req_mesh_init"], ensures=[("listening_empty_table", R + "ens_mesh_init")], raises=(), policy=MESH_INIT_POL,
             props=["C17", "C16", "C07"], replayable=False))
