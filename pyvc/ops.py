"""Value-level operations shared by the interpreter: typing, truthiness, equality, binary ops,
subscripts.  `it` is the Interp (for ctx access, raising interpreted exceptions, forking)."""
import z3
from . import sym, bts
from .sym import SInt, SBool, SFloat, SRatio, Unsupported, cmp, b_and, b_or, b_not, i_ite, is_conc
from .core import (Ref, HObj, HList, HByteArray, HDict, HSet, VBytes, VStr, BuiltinType, PyRaise,
                   Opaque, LambdaVal, BoundMethod, BoundBuiltin, BuiltinFn, TypeOfVal)
from .frontend import ClassInfo, FuncInfo


class HSeq:
    """a list of byte-range ints whose length is symbolic (only ever turned into bytes)"""
    __slots__ = ("term",)

    def __init__(self, term):
        self.term = term

    def clone(self):
        return HSeq(self.term)


def _seq_term(o):
    if isinstance(o, HSeq):
        return o.term
    if all(isinstance(x, (int, SInt)) and not isinstance(x, bool) for x in o.items):
        for x in o.items:
            lo, hi = sym.rng(x)
            if lo < 0 or hi > 255:
                return None
        return bts.from_cells(list(o.items))
    return None


def is_intlike(v):
    return isinstance(v, (int, SInt, SBool)) and not isinstance(v, float)


def is_boolv(v):
    return isinstance(v, (bool, SBool))


def bytes_term(it, v):
    """BT of a bytes-like value or None"""
    if isinstance(v, VBytes):
        return v.term
    if isinstance(v, bytes):
        return bts.from_bytes(v)
    if isinstance(v, Ref):
        o = it.ctx.obj(v)
        if isinstance(o, HByteArray):
            return o.term
    return None


def type_name(it, v):
    if isinstance(v, (bool, SBool)):
        return "bool"
    if isinstance(v, (int, SInt)):
        return "int"
    if isinstance(v, (float, SFloat, SRatio)):
        return "float"
    if v is None:
        return "NoneType"
    if isinstance(v, (str, VStr)):
        return "str"
    if isinstance(v, (VBytes, bytes)):
        return "bytes"
    if isinstance(v, tuple):
        return "tuple"
    if isinstance(v, Ref):
        o = it.ctx.obj(v)
        if isinstance(o, HByteArray):
            return "bytearray"
        if isinstance(o, (HList, HSeq)):
            return "list"
        if isinstance(o, HDict):
            return "dict"
        if isinstance(o, HSet):
            return "set"
        if isinstance(o, HObj):
            return o.cls
    if isinstance(v, (FuncInfo, LambdaVal, BoundMethod, BoundBuiltin, BuiltinFn)):
        return "function"
    if isinstance(v, (ClassInfo, BuiltinType)):
        return "type"
    return "object"


def isinstance_(it, v, t):
    if isinstance(t, tuple):
        return any(isinstance_(it, v, x) for x in t)
    tn = type_name(it, v)
    if isinstance(t, BuiltinType):
        if t.name == "int":
            return tn in ("int", "bool")
        if t.name == "object":
            return True
        return tn == t.name
    if isinstance(t, ClassInfo):
        return isinstance(tn, ClassInfo) and tn.issubclass(t)
    raise Unsupported("isinstance against %r" % (t,))


def truthy(it, v):
    """Python truthiness -> bool | SBool"""
    if v is None:
        return False
    if is_intlike(v):
        return sym.truth(v)
    if isinstance(v, float):
        return v != 0.0
    if isinstance(v, (str, bytes, tuple)):
        return len(v) != 0
    if isinstance(v, VStr):
        raise Unsupported("truthiness of an opaque str")
    t = bytes_term(it, v)
    if t is not None:
        return cmp("!=", t.length, 0)
    if isinstance(v, Ref):
        o = it.ctx.obj(v)
        if isinstance(o, HList):
            return len(o.items) != 0
        if isinstance(o, HDict):
            return len(o.keys) != 0
        if isinstance(o, HSet):
            return len(o.items) != 0
        if isinstance(o, HObj):
            f = o.cls.find_method("__len__")
            if f is not None:
                return cmp("!=", it.call_function(f, [v], {}), 0)
            return True
    if isinstance(v, (FuncInfo, LambdaVal, BoundMethod, BoundBuiltin, BuiltinFn, ClassInfo, BuiltinType, Opaque)):
        return True
    raise Unsupported("truthiness of %r" % (v,))


def values_eq(it, a, b):
    """a == b -> bool | SBool"""
    if a is None or b is None:
        return a is None and b is None
    if is_intlike(a) and is_intlike(b):
        return cmp("==", a, b)
    if isinstance(a, str) and isinstance(b, str):
        return a == b
    if isinstance(a, float) and isinstance(b, (float, int)) or isinstance(b, float) and isinstance(a, (float, int)):
        return a == b
    ta, tb = bytes_term(it, a), bytes_term(it, b)
    if ta is not None and tb is not None:
        return bts.eq(ta, tb)
    if isinstance(a, tuple) and isinstance(b, tuple):
        if len(a) != len(b):
            return False
        return b_and(*[values_eq(it, x, y) for x, y in zip(a, b)])
    if isinstance(a, Ref) and isinstance(b, Ref):
        oa, ob = it.ctx.obj(a), it.ctx.obj(b)
        if isinstance(oa, HList) and isinstance(ob, HList):
            if len(oa.items) != len(ob.items):
                return False
            return b_and(*[values_eq(it, x, y) for x, y in zip(oa.items, ob.items)])
        if isinstance(oa, HDict) and isinstance(ob, HDict):
            if len(oa.keys) != len(ob.keys):
                return False
            raise Unsupported("dict == dict")
        return a.oid == b.oid
    if isinstance(a, (ClassInfo, BuiltinType, FuncInfo)) or isinstance(b, (ClassInfo, BuiltinType, FuncInfo)):
        return a is b
    # different kinds never compare equal in Python (int vs bytes, ...)
    ka, kb = type_name(it, a), type_name(it, b)
    if ka != kb:
        if {str(ka), str(kb)} <= {"bytes", "bytearray"}:
            raise Unsupported("bytes eq")
        if isinstance(a, VStr) or isinstance(b, VStr):
            raise Unsupported("opaque str ==")
        return False
    raise Unsupported("== on %r / %r" % (a, b))


def contains(it, item, cont):
    if isinstance(cont, tuple):
        return b_or(*[values_eq(it, item, x) for x in cont])
    if isinstance(cont, Ref):
        o = it.ctx.obj(cont)
        if isinstance(o, HList):
            return b_or(*[values_eq(it, item, x) for x in o.items])
        if isinstance(o, HSet):
            return b_or(*[values_eq(it, item, x) for x in o.items])
        if isinstance(o, HDict):
            return b_or(*[values_eq(it, item, x) for x in o.keys])
    t = bytes_term(it, cont)
    if t is not None and t.cells is not None and is_intlike(item):
        return b_or(*[cmp("==", item, c) for c in t.cells])
    if isinstance(cont, str) and isinstance(item, str):
        return item in cont
    raise Unsupported("'in' on %r" % (cont,))


def compare(it, op, a, b):
    if op == "==":
        return values_eq(it, a, b)
    if op == "!=":
        return b_not(values_eq(it, a, b))
    if op == "is":
        return identical(it, a, b)
    if op == "is not":
        return b_not(identical(it, a, b))
    if op == "in":
        return contains(it, a, b)
    if op == "not in":
        return b_not(contains(it, a, b))
    if is_intlike(a) and is_intlike(b):
        return cmp(op, a, b)
    if isinstance(a, (int, float)) and isinstance(b, (int, float)):
        return {"<": a < b, "<=": a <= b, ">": a > b, ">=": a >= b}[op]
    if isinstance(a, SFloat) and isinstance(b, SFloat) and a.ns is not None and b.ns is not None:
        return cmp(op, a.ns, b.ns)          # two wall-clock values: compared on the ghost clock
    if isinstance(a, SRatio) or isinstance(b, SRatio) or isinstance(a, (SFloat, float)) or isinstance(b, (SFloat, float)):
        # opaque floats (wall-clock seconds): the outcome of the comparison is unknown -> a fresh
        # unconstrained bool (both outcomes are explored: sound over-approximation)
        it.ctx.fresh_n += 1
        k = it.ctx.ghost.get("fcmp_n", 0)
        it.ctx.ghost["fcmp_n"] = k + 1
        return it.ctx.input_bool("float_cmp[%d]" % k)
    if a is None or b is None:
        raise PyRaise("TypeError", "ordering with None")
    raise Unsupported("ordering on %r / %r" % (a, b))


def identical(it, a, b):
    if a is None or b is None:
        return a is None and b is None
    if isinstance(a, Ref) and isinstance(b, Ref):
        return a.oid == b.oid
    if isinstance(a, bool) and isinstance(b, bool):
        return a == b
    if isinstance(a, (ClassInfo, BuiltinType, FuncInfo)) or isinstance(b, (ClassInfo, BuiltinType, FuncInfo)):
        return a is b
    if isinstance(a, Ref) != isinstance(b, Ref):
        return False
    raise Unsupported("'is' on %r / %r" % (a, b))


# ------------------------------------------------------------------------ binary operators

def _neg_shift(it):
    def f(cond):
        if it.ctx.branch(cond):
            raise PyRaise("ValueError", "negative shift count")
    return f


def _zero_div(it):
    def f(cond):
        if it.ctx.branch(cond):
            raise PyRaise("ZeroDivisionError")
    return f


def to_float_sign(v):
    """non-negativity of a numeric value as bool|SBool"""
    if isinstance(v, (int, float)) and not isinstance(v, bool):
        return v >= 0
    if isinstance(v, bool):
        return True
    if isinstance(v, (SInt, SBool)):
        return cmp(">=", v, 0)
    if isinstance(v, SFloat):
        return v.nonneg
    if isinstance(v, SRatio):
        # sign(num) * sign(den) >= 0 or num == 0
        n_ok = cmp(">=", v.num, 0)
        d_ok = cmp(">", v.den, 0)
        return b_or(cmp("==", v.num, 0), b_and(n_ok, d_ok), b_and(b_not(n_ok), b_not(d_ok)))
    raise Unsupported("sign of %r" % (v,))


def binop(it, op, a, b):
    # ---- ints
    if is_intlike(a) and is_intlike(b):
        if op == "Add":
            return sym.add(a, b)
        if op == "Sub":
            return sym.sub(a, b)
        if op == "Mult":
            return sym.mul(a, b)
        if op == "BitAnd":
            if is_boolv(a) and is_boolv(b):
                return b_and(a, b)
            return sym.band(a, b)
        if op == "BitOr":
            if is_boolv(a) and is_boolv(b):
                return b_or(a, b)
            return sym.bor(a, b)
        if op == "BitXor":
            if is_boolv(a) and is_boolv(b):
                return b_not(cmp("==", sym.as_int(a), sym.as_int(b)))
            return sym.bxor(a, b)
        if op == "LShift":
            return sym.shl(a, b, _neg_shift(it))
        if op == "RShift":
            return sym.shr(a, b, _neg_shift(it))
        if op == "Mod":
            return sym.mod(a, b, _zero_div(it))
        if op == "FloorDiv":
            return sym.floordiv(a, b, _zero_div(it))
        if op == "Div":
            if is_conc(a) and is_conc(b):
                if b == 0:
                    raise PyRaise("ZeroDivisionError")
                return a / b
            return SRatio(sym.as_int(a), sym.as_int(b))
        if op == "Pow":
            if is_conc(a) and is_conc(b):
                return a ** b
            raise Unsupported("symbolic **")
    # ---- floats (sign only)
    num = (int, float, SInt, SBool, SFloat, SRatio)
    if isinstance(a, num) and isinstance(b, num):
        if isinstance(a, (int, float)) and isinstance(b, (int, float)):
            try:
                return {"Add": lambda: a + b, "Sub": lambda: a - b, "Mult": lambda: a * b,
                        "Div": lambda: a / b, "Pow": lambda: a ** b, "Mod": lambda: a % b,
                        "FloorDiv": lambda: a // b}[op]()
            except ZeroDivisionError:
                raise PyRaise("ZeroDivisionError")
        if op == "Div" and isinstance(b, (int, float)) and b != 0 and not isinstance(a, (SFloat,)):
            if isinstance(a, SRatio):
                sa = to_float_sign(a)
                return SFloat(sa if b > 0 else b_not(sa))
            if isinstance(b, int):
                return SRatio(sym.as_int(a), b)
            sa = to_float_sign(a)
            return SFloat(sa if b > 0 else b_or(b_not(sa), cmp("==", a, 0)))
        if op == "Mult":
            sa, sb = to_float_sign(a), to_float_sign(b)
            # product is non-negative if signs agree (zero handled conservatively as non-negative)
            return SFloat(b_or(b_and(sa, sb), b_and(b_not(sa), b_not(sb))))
        if op == "Add":
            sa, sb = to_float_sign(a), to_float_sign(b)
            both = b_and(sa, sb)
            for x, y in ((a, b), (b, a)):
                # wall-clock seconds + whole seconds: keep the ghost clock value (a deadline)
                if isinstance(x, SFloat) and x.ns is not None and isinstance(y, (int, SInt)) and not isinstance(y, bool):
                    lo, hi = sym.rng(y)
                    if lo >= 0 and hi <= 10 ** 6:
                        return SFloat(both, ns=sym.add(x.ns, sym.mul(y, 10 ** 9)))
            return SFloat(both)   # non-negative when both are (otherwise the sign is unknown: treated as possibly negative)
        raise Unsupported("float op %s" % op)
    # ---- bytes
    ta, tb = bytes_term(it, a), bytes_term(it, b)
    if op == "Add" and ta is not None and tb is not None:
        res = bts.concat(ta, tb)
        if type_name(it, a) == "bytearray":
            return it.ctx.alloc(HByteArray(res))
        return VBytes(res)
    if op == "Mult" and ta is not None and is_intlike(b):
        res = bts.repeat(ta, sym.as_int(b))
        if type_name(it, a) == "bytearray":
            return it.ctx.alloc(HByteArray(res))
        return VBytes(res)
    if op == "Mult" and tb is not None and is_intlike(a):
        return binop(it, op, b, a)
    if op == "Add" and (ta is None) != (tb is None) and (ta is not None or tb is not None):
        raise PyRaise("TypeError", "can't concat")
    # ---- tuples / lists / str
    if isinstance(a, tuple) and isinstance(b, tuple) and op == "Add":
        return a + b
    if isinstance(a, tuple) and is_conc(b) and op == "Mult":
        return a * b
    if isinstance(a, Ref) and isinstance(it.ctx.obj(a), (HList, HSeq)):
        la = it.ctx.obj(a)
        lb = it.ctx.obj(b) if isinstance(b, Ref) else None
        if op == "Add" and isinstance(la, HList) and isinstance(lb, HList):
            return it.ctx.alloc(HList(la.items + lb.items))
        if op == "Mult" and isinstance(la, HList) and is_conc(b):
            return it.ctx.alloc(HList(la.items * b))
        # lists of byte values with a symbolic length ([0] * n, [reg] + [0] * n): kept as a byte term
        if op == "Mult" and isinstance(la, HList) and is_intlike(b) and len(la.items) == 1 and is_conc(la.items[0]) and 0 <= la.items[0] <= 255:
            return it.ctx.alloc(HSeq(bts.repeat(bts.from_cells(la.items), sym.as_int(b))))
        if op == "Add" and isinstance(lb, (HList, HSeq)):
            ta2, tb2 = _seq_term(la), _seq_term(lb)
            if ta2 is not None and tb2 is not None:
                return it.ctx.alloc(HSeq(bts.concat(ta2, tb2)))
    if isinstance(a, str) and isinstance(b, str) and op == "Add":
        return a + b
    if isinstance(a, str) and op == "Mult" and is_conc(b):
        return a * b
    if isinstance(a, (str, VStr)) and op in ("Mod", "Add"):
        return VStr("fmt")
    if isinstance(b, (VStr,)) and op == "Add":
        return VStr("fmt")
    raise Unsupported("binop %s on %r / %r" % (op, type_name(it, a), type_name(it, b)))


# ------------------------------------------------------------------------ subscripts

def norm_index(it, idx, n, what="index"):
    """Python index normalisation with IndexError fork; returns idx in [0, n)"""
    if not is_intlike(idx):
        raise PyRaise("TypeError", "indices must be integers")
    idx = sym.as_int(idx)
    if is_conc(idx) and is_conc(n):
        if idx < -n or idx >= n:
            raise PyRaise("IndexError", what)
        return idx % n if n else idx
    ok = b_and(cmp(">=", idx, sym.neg(n)), cmp("<", idx, n))
    if not it.ctx.branch(ok):
        raise PyRaise("IndexError", what)
    return i_ite(cmp("<", idx, 0), sym.add(idx, n), idx)


def concretize(it, idx, n):
    """fork a symbolic index over 0..n-1"""
    if is_conc(idx):
        return idx
    for k in range(n - 1):
        if it.ctx.branch(cmp("==", idx, k)):
            return k
    it.ctx.assume(cmp("==", idx, n - 1))
    return n - 1


def seq_len(it, v):
    t = bytes_term(it, v)
    if t is not None:
        return t.length
    if isinstance(v, (tuple, str)):
        return len(v)
    if isinstance(v, Ref):
        o = it.ctx.obj(v)
        if isinstance(o, HList):
            return len(o.items)
        if isinstance(o, HSeq):
            return o.term.length
        if isinstance(o, HDict):
            return len(o.keys)
        if isinstance(o, HSet):
            return len(o.items)
        if isinstance(o, HObj):
            f = o.cls.find_method("__len__")
            if f is not None:
                return it.call_function(f, [v], {})
    raise PyRaise("TypeError", "object has no len()")


def get_item(it, v, idx):
    t = bytes_term(it, v)
    if t is not None:
        i = norm_index(it, idx, t.length)
        return t.get(i)
    items = None
    if isinstance(v, tuple):
        items = list(v)
    elif isinstance(v, Ref):
        o = it.ctx.obj(v)
        if isinstance(o, HList):
            items = o.items
        elif isinstance(o, HDict):
            return dict_get(it, o, idx)
    elif isinstance(v, str):
        if is_conc(idx):
            try:
                return v[idx]
            except IndexError:
                raise PyRaise("IndexError", "string index")
        raise Unsupported("symbolic index into str")
    if items is None:
        raise Unsupported("subscript on %r" % (type_name(it, v),))
    i = norm_index(it, idx, len(items))
    if is_conc(i):
        return items[i]
    if all(is_intlike(x) for x in items):
        res = items[-1]
        for k in range(len(items) - 2, -1, -1):
            res = i_ite(cmp("==", i, k), items[k], res)
        return res
    return items[concretize(it, i, len(items))]


def dict_get(it, o, key):
    for k, val in zip(o.keys, o.vals):
        if it.ctx.branch(values_eq(it, k, key)):
            return val
    raise PyRaise("KeyError")


def get_slice(it, v, lo, hi, step):
    if step is not None:
        raise Unsupported("slice step")
    t = bytes_term(it, v)
    if t is not None:
        res = bts.bslice(t, lo, hi)
        if type_name(it, v) == "bytearray":
            return it.ctx.alloc(HByteArray(res))
        return VBytes(res)
    if isinstance(v, (tuple, str)) and (lo is None or is_conc(lo)) and (hi is None or is_conc(hi)):
        return v[lo:hi]
    if isinstance(v, Ref) and isinstance(it.ctx.obj(v), HList) and (lo is None or is_conc(lo)) and (hi is None or is_conc(hi)):
        return it.ctx.alloc(HList(it.ctx.obj(v).items[lo:hi]))
    raise Unsupported("slice of %r" % (type_name(it, v),))


def byte_value_check(it, val):
    """bytearray item store / bytes([x]) : ValueError unless 0 <= x <= 255"""
    if not is_intlike(val):
        raise PyRaise("TypeError", "an integer is required")
    val = sym.as_int(val)
    ok = b_and(cmp(">=", val, 0), cmp("<=", val, 255))
    if not it.ctx.branch(ok):
        raise PyRaise("ValueError", "byte must be in range(0, 256)")
    if isinstance(val, SInt):
        return SInt(val.e, max(val.lo, 0), min(val.hi, 255))
    return val


def set_item(it, v, idx, val):
    if isinstance(v, Ref):
        o = it.ctx.obj(v)
        if isinstance(o, HByteArray):
            i = norm_index(it, idx, o.term.length, "bytearray index out of range")
            val = byte_value_check(it, val)
            o = it.ctx.mutate(v)
            o.term = bts.store(o.term, i, val)
            return
        if isinstance(o, HList):
            i = norm_index(it, idx, len(o.items), "list assignment index out of range")
            o = it.ctx.mutate(v, ("i", i) if is_conc(i) else None)
            if is_conc(i):
                o.items[i] = val
                return
            if is_intlike(val) and all(is_intlike(x) for x in o.items):
                o.items[:] = [i_ite(cmp("==", i, k), val, x) for k, x in enumerate(o.items)]
                return
            o.items[concretize(it, i, len(o.items))] = val
            return
        if isinstance(o, HDict):
            for k in range(len(o.keys)):
                if it.ctx.branch(values_eq(it, o.keys[k], idx)):
                    it.ctx.mutate(v).vals[k] = val
                    return
            o = it.ctx.mutate(v)
            o.keys.append(idx)
            o.vals.append(val)
            return
    if isinstance(v, (VBytes, bytes, tuple, str)):
        raise PyRaise("TypeError", "object does not support item assignment")
    raise Unsupported("item assignment on %r" % (type_name(it, v),))


def set_slice(it, v, lo, hi, val):
    if isinstance(v, Ref) and isinstance(it.ctx.obj(v), HByteArray):
        src = bytes_term(it, val)
        if src is None:
            raise Unsupported("slice assignment from non-bytes")
        o = it.ctx.mutate(v)
        o.term = bts.slice_assign(o.term, lo, hi, src)
        return
    raise Unsupported("slice assignment on %r" % (type_name(it, v),))


def del_item(it, v, idx):
    if isinstance(v, Ref):
        o = it.ctx.obj(v)
        if isinstance(o, HList):
            i = norm_index(it, idx, len(o.items))
            i = concretize(it, i, len(o.items))
            del it.ctx.mutate(v).items[i]
            return
        if isinstance(o, HDict):
            for k in range(len(o.keys)):
                if it.ctx.branch(values_eq(it, o.keys[k], idx)):
                    o = it.ctx.mutate(v)
                    del o.keys[k]
                    del o.vals[k]
                    return
            raise PyRaise("KeyError")
    raise Unsupported("del item on %r" % (type_name(it, v),))
