"""C17: "a message sent to its node ID arrives at that node".
RF24MeshNoMaster.send() resolves the destination ID to an address and then compares that ADDRESS
with this node's own ID: when they are numerically equal (own ID 5, destination's address 0o5) the
message is written to the sender's own address instead.  Only lookup_address()/write() are
stubbed; the send() that runs is the real one.  Exit 0 = property holds, 1 = violated."""
import sys
from circuitpython_nrf24l01.rf24_mesh import RF24MeshNoMaster

node = object.__new__(RF24MeshNoMaster)
node._addr = 0o1          # this node: ID 5 at address 0o1
node._id = 5
table = {5: 0o1, 9: 0o5}  # the master's table: node ID 9 lives at address 0o5 (== 5)
node.lookup_address = lambda node_id=None: table.get(node_id, -2)
written = []
node.write = lambda to_node, message_type, message: written.append(to_node) or True

node.send(9, 65, b"hello node 9")
print("send(node_id=9) wrote to address", [oct(a) for a in written], "- node 9 is at", oct(table[9]))
sys.exit(0 if written == [table[9]] else 1)
