"""Declarative description of symbolic pre-states.  The same schema drives the symbolic builder
(engine, python3-vt) and the native builder (replay / differential, /venv/bin/python): labels are
shared, so a solver model maps 1:1 onto real objects.  Pure stdlib; no z3 import here."""

A_INT_LO = -(1 << 62)
A_INT_HI = (1 << 62) - 1
A_LEN_HI = 1 << 20   # A-LEN: symbolic buffer lengths are below 2^20


class Node:
    pass


class Int(Node):
    def __init__(self, lo=A_INT_LO, hi=A_INT_HI):
        self.lo, self.hi = lo, hi


class Bool(Node):
    pass


class Const(Node):
    def __init__(self, v):
        self.v = v


class Bytes(Node):
    def __init__(self, minlen, maxlen=None, mutable=False):
        self.minlen = minlen
        self.maxlen = maxlen
        self.mutable = mutable


def ByteArray(minlen, maxlen=None):
    return Bytes(minlen, maxlen, mutable=True)


class ListOf(Node):
    def __init__(self, items):
        self.items = list(items)


class TupleOf(Node):
    def __init__(self, items):
        self.items = list(items)


class Obj(Node):
    def __init__(self, cls, fields):
        self.cls = cls
        self.fields = fields


class OneOf(Node):
    def __init__(self, *alts):
        self.alts = list(alts)


def Opt(x):
    return OneOf(Const(None), x)


class Share(Node):
    """object shared between several places of the state (e.g. one radio behind SPI and CE)"""
    def __init__(self, name, node=None):
        self.name = name
        self.node = node


class DictOf(Node):
    def __init__(self, n, key, val):
        self.n, self.key, self.val = n, key, val


# ------------------------------------------------------------------------------ native builder

SHORT = {
    "rf24": "circuitpython_nrf24l01.rf24", "rf24_lite": "circuitpython_nrf24l01.rf24_lite",
    "fake_ble": "circuitpython_nrf24l01.fake_ble", "rf24_mesh": "circuitpython_nrf24l01.rf24_mesh",
    "rf24_network": "circuitpython_nrf24l01.rf24_network", "mixins": "circuitpython_nrf24l01.network.mixins",
    "structs": "circuitpython_nrf24l01.network.structs", "constants": "circuitpython_nrf24l01.network.constants",
    "cpy_spidev": "circuitpython_nrf24l01.wrapper.cpy_spidev",
}


def native_class(key):
    import importlib
    mod, _, name = key.partition(":")
    m = importlib.import_module(SHORT.get(mod, mod))
    # the engine models adafruit_bus_device.SPIDevice(spi, ...) as `spi` itself (assumed contract
    # SPIDEV: one `with` block = one CSN frame on the stub); a constructor that runs natively
    # (replay / differential) must build the same object graph
    for drv in ("circuitpython_nrf24l01.rf24", "circuitpython_nrf24l01.rf24_lite"):
        if not SHORT.get(mod, mod).startswith("circuitpython_nrf24l01"):
            break
        try:
            dm = importlib.import_module(drv)
        except Exception:
            continue
        if hasattr(dm, "SPIDevice") and getattr(dm.SPIDevice, "__name__", "") != "_spidevice_as_modelled":
            def _spidevice_as_modelled(spi, *a, **k):
                return spi
            dm.SPIDevice = _spidevice_as_modelled
    return getattr(m, name)


def build_native(node, label, vals, shared=None):
    """vals: flat dict label -> concrete value taken from a solver model (missing -> default)"""
    if shared is None:
        shared = {}
    if isinstance(node, Int):
        v = vals.get(label, node.lo if node.lo > 0 else min(max(0, node.lo), node.hi))
        return int(v)
    if isinstance(node, Bool):
        return bool(vals.get(label, False))
    if isinstance(node, Const):
        return node.v
    if isinstance(node, Bytes):
        if node.minlen == node.maxlen:
            data = [int(vals.get("%s[%d]" % (label, k), 0)) & 0xFF for k in range(node.minlen)]
        else:
            n = int(vals.get(label + "#len", node.minlen))
            arr = vals.get(label, [])
            data = [(int(arr[k]) & 0xFF) if k < len(arr) else 0 for k in range(n)]
        return bytearray(data) if node.mutable else bytes(data)
    if isinstance(node, ListOf):
        return [build_native(x, "%s[%d]" % (label, k), vals, shared) for k, x in enumerate(node.items)]
    if isinstance(node, TupleOf):
        return tuple(build_native(x, "%s[%d]" % (label, k), vals, shared) for k, x in enumerate(node.items))
    if isinstance(node, Obj):
        cls = native_class(node.cls)
        o = object.__new__(cls)
        for f, sub in node.fields.items():
            object.__setattr__(o, f, build_native(sub, label + "." + f, vals, shared))
        return o
    if isinstance(node, OneOf):
        k = int(vals.get(label + "#alt", 0))
        k = max(0, min(len(node.alts) - 1, k))
        return build_native(node.alts[k], "%s|%d" % (label, k), vals, shared)
    if isinstance(node, Share):
        if node.name in shared:
            return shared[node.name]
        o = build_native(node.node, "$" + node.name, vals, shared)
        shared[node.name] = o
        return o
    if isinstance(node, DictOf):
        d = {}
        for k in range(node.n):
            kk = build_native(node.key, "%s.k%d" % (label, k), vals, shared)
            d[kk] = build_native(node.val, "%s.v%d" % (label, k), vals, shared)
        return d
    raise TypeError("schema node %r" % (node,))
