"""C20 -- rf24_lite honours the same link-level contract as RF24.

The SAME reference functions as C01/C02/C03/C08/C10 are reused: the lite object carries ghost
shadow attributes (never touched by the real lite code) so that the full driver's references run
on it unchanged; the comparison (view_lite) looks only at the radio, the cached STATUS and the
remembered pipe-0 address.  Wrappers add what is lite-specific: STATUS is cached in `_status`,
rejections raise ValueError, dynamic payloads / payload length are global, auto-ack is always on."""
from pyvc.cdef import Contract
from pyvc.schema import Int, Bool, Const, Bytes, ByteArray, ListOf, Obj, OneOf
from pyvc.specrt import implies, ite, is_fresh
from spec.rf24_state import radio_schema, hw_ranges, hw_view
from spec import c03, c08, c10, c01, c02

LITE = "rf24_lite:RF24"


def lite_schema(p0=None, env=None, share="hw"):
    return Obj(LITE, {
        "_spi": Obj("spec.hw:SpiStub", {"hw": radio_schema(env=env, share=share)}),
        "_ce_pin": Obj("spec.hw:Pin", {"hw": radio_schema(env=env, share=share)}),
        "_status": Int(0, 255),
        "_pipe0_read_addr": p0 if p0 is not None else OneOf(Const(None), Bytes(1, 5), ByteArray(1, 5)),
        # ghost shadows so that the full driver's reference functions run unchanged (never read by lite code)
        "_in": ByteArray(97, 97), "_pipes": ListOf([ByteArray(5, 5), ByteArray(5, 5), Int(0, 255), Int(0, 255), Int(0, 255), Int(0, 255)]),
        "_pl_len": ListOf([Int(1, 32) for _ in range(6)]), "_tx_address": ByteArray(5, 5),
    })


def lite_inv(self):
    """what rf24_lite's own API keeps: reserved bits clear, auto-ack on all pipes, dynamic payloads
    global (DYNPD 0 or 0x3F, EN_DPL iff 0x3F)"""
    hw = self._spi.hw
    g = hw.reg
    return (hw_ranges(hw) and self._ce_pin.hw is hw and g[1] == 0x3F and (g[0x1C] == 0 or g[0x1C] == 0x3F)
            and ((g[0x1D] & 4) != 0) == (g[0x1C] == 0x3F)
            and 1 <= g[0x11] and g[0x11] <= 32 and g[0x12] == g[0x11] and g[0x13] == g[0x11] and g[0x14] == g[0x11]
            and g[0x15] == g[0x11] and g[0x16] == g[0x11])


def post_lite_inv(self):
    return lite_inv(self)


def view_lite(self):
    return hw_view(self._spi.hw) + (("_status", self._status), ("_pipe0_read_addr", self._pipe0_read_addr))


def _st(self):
    """every SPI frame refreshes the cached STATUS"""
    self._status = self._spi.hw.status()


def _sync_in(self):
    self._status = self._in[0]


# ------------------------------------------------------------------ configuration (C03 references)

def l_address_length_get(self):
    r = c03.ref_address_length_get(self)
    _st(self)
    return r


def l_address_length_set(self, length):
    c03.ref_address_length_set(self, length)
    _st(self)


def l_open_tx_pipe(self, addr):
    """auto-ack is always on: pipe 0 takes the TX address too"""
    hw = self._spi.hw
    n = len(addr)
    p = addr + bytes(5)
    for k in range(5):
        hw.addr0[k] = ite(k < n, p[k], hw.addr0[k])
        hw.txaddr[k] = ite(k < n, p[k], hw.txaddr[k])
    _st(self)


def l_close_rx_pipe(self, pipe_num):
    if pipe_num < 0 or pipe_num > 5:
        raise ValueError()
    c03.ref_close_rx_pipe(self, pipe_num)       # incl. forgetting the user's pipe-0 address (C08)
    _st(self)


def l_open_rx_pipe(self, pipe_num, addr):
    if pipe_num < 0 or pipe_num > 5:
        raise ValueError()
    c03.ref_open_rx_pipe_v(self, pipe_num, addr)
    _st(self)


def l_listen_get(self):
    r = c08.ref_listen_get(self)
    _st(self)
    return r


def l_listen_set(self, is_rx):
    c08.ref_listen_set(self, is_rx)
    _st(self)


def l_interrupt_config(self, data_recv, data_sent, data_fail):
    c03.ref_interrupt_config(self, data_recv, data_sent, data_fail)
    _st(self)


def l_dynamic_payloads_get(self):
    r = (self._spi.hw.reg[0x1D] & 4) != 0
    _st(self)
    return r


def l_dynamic_payloads_set(self, enable):
    c03.ref_dynamic_payloads_set(self, bool(enable))
    _st(self)


def l_payload_length_get(self):
    r = c03.ref_payload_length_get(self)
    _st(self)
    return r


def l_payload_length_set(self, length):
    c03.ref_payload_length_set(self, length)
    _st(self)


def l_arc_get(self):
    r = c03.ref_arc_get(self)
    _st(self)
    return r


def l_arc_set(self, cnt):
    c03.ref_arc_set(self, cnt)
    _st(self)


def l_ard_get(self):
    r = c03.ref_ard_get(self)
    _st(self)
    return r


def l_ard_set(self, delta):
    c03.ref_ard_set(self, delta)
    _st(self)


def l_ack_get(self):
    g = self._spi.hw.reg
    r = (g[0x1D] & 6) == 6 and g[0x1C] != 0
    _st(self)
    return r


def l_ack_set(self, enable):
    """enabling ACK payloads turns (global) dynamic payloads on; disabling clears EN_ACK_PAY only"""
    hw = self._spi.hw
    if enable:
        hw.reg[0x1C] = 0x3F
        hw.reg[0x1D] = hw.reg[0x1D] | 6
    else:
        hw.reg[0x1D] = hw.reg[0x1D] & 5
    _st(self)


def l_data_rate_get(self):
    r = c03.ref_data_rate_get(self)
    _st(self)
    return r


def l_data_rate_set(self, speed):
    c03.ref_data_rate_set(self, speed)
    _st(self)


def req_rate(self, speed):
    """documented values only (the lite driver does not validate)"""
    return lite_inv(self) and (speed == 1 or speed == 2 or speed == 250)


def l_channel_get(self):
    r = c03.ref_channel_get(self)
    _st(self)
    return r


def l_channel_set(self, chnl):
    c03.ref_channel_set(self, chnl)
    _st(self)


def l_power_get(self):
    r = c03.ref_power_get(self)
    _st(self)
    return r


def l_power_set(self, is_on):
    c03.ref_power_set(self, is_on)
    _st(self)


def l_pa_level_get(self):
    r = c03.ref_pa_level_get(self)
    _st(self)
    return r


def l_pa_level_set(self, pwr):
    c03.ref_pa_level_set_reject(self, pwr)
    _st(self)


# ------------------------------------------------------------------ accessors (C10 references)

def l_update(self):
    r = c10.ref_update(self)
    _sync_in(self)
    return r


def l_available(self):
    r = c10.ref_available(self)
    _sync_in(self)
    return r


def l_any(self):
    r = c10.ref_any(self)
    _st(self)
    return r


def l_read(self, length):
    r = c10.ref_read_default(self, length)
    _sync_in(self)
    return r


def l_pipe(self):
    self._in[0] = self._status
    return c10.ref_pipe(self)


def l_tx_full(self):
    return (self._status & 1) != 0


def l_irq_dr(self):
    return (self._status & 0x40) != 0


def l_irq_ds(self):
    return (self._status & 0x20) != 0


def l_irq_df(self):
    return (self._status & 0x10) != 0


def l_clear_status_flags(self, data_recv, data_sent, data_fail):
    c10.ref_clear_status_flags(self, data_recv, data_sent, data_fail)
    _sync_in(self)


def l_flush_rx(self):
    c10.ref_flush_rx(self)
    _sync_in(self)


def l_flush_tx(self):
    c10.ref_flush_tx(self)
    _sync_in(self)


def l_fifo(self, about_tx, check_empty):
    r = c10.ref_fifo(self, about_tx, check_empty)
    _sync_in(self)
    return r


def l_rpd(self):
    r = c10.ref_rpd(self)
    _sync_in(self)
    return r


# ------------------------------------------------------------------ load_ack / write (C20's own clause, C01)

def ens_load_ack(self, old_self, buf, pipe_num, result, exc):
    """accepts exactly buffers of 1..32 bytes for pipes 0..5 (enabling ACK payloads first if
    needed); otherwise the TX FIFO is left untouched and False is returned"""
    hw = self._spi.hw
    ohw = old_self._spi.hw
    valid = 0 <= pipe_num and pipe_num <= 5 and 1 <= len(buf) and len(buf) <= 32
    if exc is not None:
        return False
    if not valid:
        return result == False and hw.loaded == ohw.loaded and hw.tx_n == ohw.tx_n
    room = ohw.tx_n < 3 and (old_self._status & 1) == 0
    i = ite(ohw.tx_n < 3, ohw.tx_n, 0)
    loaded = (hw.tx_n == ohw.tx_n + 1 and hw.tx_ackpipe[i] == pipe_num and hw.tx_len[i] == len(buf)
              and hw.tx_data[i][:len(buf)] == bytes(buf) and (hw.reg[0x1D] & 2) != 0)
    return ite(result, loaded, hw.loaded == ohw.loaded)


def req_load_ack(self, buf, pipe_num):
    hw = self._spi.hw
    return lite_inv(self) and ((self._status & 1) != 0) == (hw.tx_n >= 3)


def l_write(self, buf, ask_no_ack, write_only):
    """C01's reference for write(), in the lite driver's order of frames; TX mode is entered first
    if the radio is not already powered up in TX mode"""
    hw = self._spi.hw
    dyn = (hw.reg[0x1C] & 1) != 0
    if dyn and (len(buf) == 0 or len(buf) > 32):
        _st(self)           # the lite driver reads FEATURE first (a read changes nothing in the radio)
        raise ValueError()
    p = c01.tx_payload(self, buf)
    self._status = hw.status()
    hw.reg[7] = hw.reg[7] & 0x8F
    if self._status & 1:
        return False
    if (hw.reg[0] & 3) != 2:
        hw.reg[0] = (hw.reg[0] & 0x7C) | 2
        hw.ce_log = ite(hw.ce, hw.ce_log | 2, hw.ce_log)
    cmd = ite(bool(ask_no_ack), 0xB0, 0xA0)
    miso = hw.xfer(bytes([cmd]) + p)
    self._status = miso[0]
    if not write_only:
        hw.set_ce(True)
    return True


def req_write(self, buf, ask_no_ack, write_only):
    hw = self._spi.hw
    return lite_inv(self) and (hw.reg[0] & 3) == 2


R = "spec.c20:"
B3 = {"data_recv": Bool(), "data_sent": Bool(), "data_fail": Bool()}
LPOL = {"rf24_lite:RF24.*": "inline"}
ADDR = OneOf(Bytes(0, 5), ByteArray(0, 5))


def C(name, target, args, ref, requires=(), ensures=(), p0=None):
    state = {"self": lite_schema(p0=p0)}
    state.update(args)
    return Contract("C20." + name, LITE + "." + target, state, requires=[R + "lite_inv"] + list(requires), refines=ref,
                    view=R + "view_lite", ensures=[("lite_inv", R + "post_lite_inv")] + list(ensures), policy=LPOL, props=["C20"])


N = Const(None)
CONTRACTS = [
    C("address_length.get", "address_length.getter", {}, R + "l_address_length_get", p0=N),
    C("address_length.set", "address_length.setter", {"length": Int()}, R + "l_address_length_set", p0=N),
    C("open_tx_pipe", "open_tx_pipe", {"addr": ADDR}, R + "l_open_tx_pipe", p0=N),
    C("close_rx_pipe", "close_rx_pipe", {"pipe_num": Int()}, R + "l_close_rx_pipe"),
    C("open_rx_pipe", "open_rx_pipe", {"pipe_num": Int(), "addr": ADDR}, R + "l_open_rx_pipe"),
    C("listen.get", "listen.getter", {}, R + "l_listen_get", p0=N),
    C("listen.set", "listen.setter", {"is_rx": OneOf(Bool(), Int(0, 1))}, R + "l_listen_set",
      requires=["spec.c08:j_inv"], ensures=[("rx_entry", "spec.c08:ens_rx_entry"), ("ce", "spec.c08:ens_ce"), ("J", "spec.c08:j_post")]),
    C("interrupt_config", "interrupt_config", B3, R + "l_interrupt_config", p0=N),
    C("dynamic_payloads.get", "dynamic_payloads.getter", {}, R + "l_dynamic_payloads_get", p0=N),
    C("dynamic_payloads.set", "dynamic_payloads.setter", {"enable": OneOf(Bool(), Int())}, R + "l_dynamic_payloads_set", p0=N),
    C("payload_length.get", "payload_length.getter", {}, R + "l_payload_length_get", p0=N),
    C("payload_length.set", "payload_length.setter", {"length": Int()}, R + "l_payload_length_set", p0=N),
    C("arc.get", "arc.getter", {}, R + "l_arc_get", p0=N),
    C("arc.set", "arc.setter", {"cnt": Int()}, R + "l_arc_set", p0=N),
    C("ard.get", "ard.getter", {}, R + "l_ard_get", p0=N),
    C("ard.set", "ard.setter", {"delta": Int()}, R + "l_ard_set", p0=N),
    C("ack.get", "ack.getter", {}, R + "l_ack_get", p0=N),
    C("ack.set", "ack.setter", {"enable": OneOf(Bool(), Int())}, R + "l_ack_set", p0=N),
    C("data_rate.get", "data_rate.getter", {}, R + "l_data_rate_get", p0=N),
    C("data_rate.set", "data_rate.setter", {"speed": Int()}, R + "l_data_rate_set", requires=[R + "req_rate"], p0=N),
    C("channel.get", "channel.getter", {}, R + "l_channel_get", p0=N),
    C("channel.set", "channel.setter", {"chnl": Int()}, R + "l_channel_set", p0=N),
    C("power.get", "power.getter", {}, R + "l_power_get", p0=N),
    C("power.set", "power.setter", {"is_on": OneOf(Bool(), Int())}, R + "l_power_set", p0=N),
    C("pa_level.get", "pa_level.getter", {}, R + "l_pa_level_get", p0=N),
    C("pa_level.set", "pa_level.setter", {"pwr": Int()}, R + "l_pa_level_set", p0=N),
    C("update", "update", {}, R + "l_update", p0=N),
    C("available", "available", {}, R + "l_available", p0=N),
    C("any", "any", {}, R + "l_any", p0=N),
    C("read", "read", {"length": OneOf(Const(None), Int())}, R + "l_read", requires=["spec.c10:req_read_len"],
      ensures=[("fresh", "spec.c10:ens_read_fresh")], p0=N),
    C("pipe", "pipe.getter", {}, R + "l_pipe", p0=N),
    C("tx_full", "tx_full.getter", {}, R + "l_tx_full", p0=N),
    C("irq_dr", "irq_dr.getter", {}, R + "l_irq_dr", p0=N),
    C("irq_ds", "irq_ds.getter", {}, R + "l_irq_ds", p0=N),
    C("irq_df", "irq_df.getter", {}, R + "l_irq_df", p0=N),
    C("clear_status_flags", "clear_status_flags", B3, R + "l_clear_status_flags", p0=N),
    C("flush_rx", "flush_rx", {}, R + "l_flush_rx", p0=N),
    C("flush_tx", "flush_tx", {}, R + "l_flush_tx", p0=N),
    C("fifo", "fifo", {"about_tx": OneOf(Bool(), Int()), "check_empty": OneOf(Const(None), Bool(), Int())}, R + "l_fifo", p0=N),
    C("rpd", "rpd.getter", {}, R + "l_rpd", p0=N),
    Contract("C20.load_ack", LITE + ".load_ack", {"self": lite_schema(p0=N), "buf": OneOf(Bytes(0, 40), ByteArray(0, 40)), "pipe_num": Int()},
             requires=[R + "req_load_ack"], ensures=[("exactly_1_32", R + "ens_load_ack"), ("lite_inv", R + "post_lite_inv")],
             raises=(), policy=LPOL, props=["C20"]),
    Contract("C20.write[bytes]", LITE + ".write", {"self": lite_schema(p0=N), "buf": Bytes(0, None), "ask_no_ack": Bool(), "write_only": Bool()},
             requires=[R + "req_write"], refines=R + "l_write", view=R + "view_lite",
             ensures=[("buf_untouched", "spec.c01:ens_buf_untouched"), ("lite_inv", R + "post_lite_inv")], policy=LPOL, props=["C20"], timeout_ms=60000),
    Contract("C20.write[bytearray]", LITE + ".write", {"self": lite_schema(p0=N), "buf": ByteArray(0, None), "ask_no_ack": Bool(), "write_only": Bool()},
             requires=[R + "req_write"], refines=R + "l_write", view=R + "view_lite",
             ensures=[("buf_untouched", "spec.c01:ens_buf_untouched"), ("lite_inv", R + "post_lite_inv")], policy=LPOL, props=["C20"], timeout_ms=60000),
]


# ------------------------------------------------------------------ send / resend against the PTX engine (C02's clauses)

def lite_send_pre(self):
    hw = self._spi.hw
    s = self._status
    return (lite_inv(self) and (hw.reg[0] & 3) == 2 and not hw.inflight
            and hw.tx_n <= 3 and (hw.tx_n == 0 or (s & 0x11) != 0)
            and implies(hw.tx_n > 0, (hw.reg[7] & 0x10) != 0 or not hw.ce)
            and implies(hw.tx_n > 0, (hw.reg[7] & 0x60) == 0)
            and implies(((s >> 1) & 7) >= 6, hw.rx_n == 0)
            and implies(hw.tx_n > 0, hw.tx_ackpipe[0] < 0)
            and implies(hw.tx_n > 1, hw.tx_ackpipe[1] < 0) and implies(hw.tx_n > 2, hw.tx_ackpipe[2] < 0))


def lite_send_inv(self):
    return lite_send_pre(self) and self._spi.hw.tx_n <= 1


def req_lite_send(self, buf, ask_no_ack, force_retry, send_only):
    hw = self._spi.hw
    dyn = (hw.reg[0x1C] & 1) != 0
    return lite_send_pre(self) and implies(dyn, 1 <= len(buf) and len(buf) <= 32)


def ens_lite_send_inv(self, exc):
    return exc is None and lite_send_inv(self)


def req_lite_resend(self, send_only):
    return lite_send_inv(self)


def _lsend(name, fr, env, so):
    return Contract(name, LITE + ".send",
                    {"self": lite_schema(p0=N, env=env), "buf": Bytes(0, None), "ask_no_ack": Bool(), "force_retry": Const(fr), "send_only": Const(so)},
                    requires=[R + "req_lite_send"],
                    ensures=[("fate", "spec.c02:ens_send_fate"), ("own_payload", "spec.c02:ens_send_own_payload"),
                             ("ackpl", "spec.c02:ens_send_ackpl"), ("send_inv", R + "ens_lite_send_inv")],
                    raises=(), policy=LPOL, props=["C20"], max_paths=20000, timeout_ms=60000, poll_bound=12)


CONTRACTS += [
    _lsend("C20.send[fr=0,send_only]", 0, c02.ENV, True),
    _lsend("C20.send[fr=0]", 0, c02.ENV, False),
    _lsend("C20.send[fr=1,send_only]", 1, c02.ENV1, True),
    _lsend("C20.send[fr=1]", 1, c02.ENV1, False),
    Contract("C20.resend", LITE + ".resend", {"self": lite_schema(p0=N, env=c02.ENV), "send_only": Bool()},
             requires=[R + "req_lite_resend"], ensures=[("fate", "spec.c02:ens_resend"), ("send_inv", R + "ens_lite_send_inv")],
             raises=(), policy=LPOL, props=["C20"], max_paths=20000, timeout_ms=60000, poll_bound=12),
]
