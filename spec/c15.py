"""C15 -- no received frame can crash a node or make it forward garbage.

* is_address_valid is proved equal to the reference validity predicate for EVERY integer (and
  None), not only 16-bit values.
* _net_update (and with it update() of routing-only and network nodes, both frame handlers,
  _write, _write_to_pipe, _tx_standby) is proved exception-free for ANY RX FIFO content -- these
  are the C07 contracts (`raises=()`), listed under C15 as well; every implicit exception
  (subscripts, struct, bytes(), sleep) is a fork to a raise-path that the contract forbids.
* frames shorter than a header or with an invalid origin/destination are dropped: nothing is
  queued, nothing is transmitted.
* the mesh roles are in spec/c16.py / spec/c17.py (RF24Mesh.update, RF24MeshNoMaster.update)."""
from pyvc.cdef import Contract
from pyvc.schema import Int, Bool, Const, Bytes, ByteArray, Obj, OneOf
from pyvc.specrt import implies, ite
from spec.net_ref import valid_address
from spec.net_state import net_schema, node_ok, NETPOL, ref_is_address_valid
from spec.c07 import POL_UPD, req_update


def req_one_bad_frame(self):
    """exactly one payload is waiting and it is not a well-formed frame for anybody"""
    hw = self._rf24._spi.hw
    d = hw.rx_data[0]
    n = hw.rx_len[0]
    frm = d[0] + 256 * d[1]
    to = d[2] + 256 * d[3]
    return req_update(self) and hw.rx_n == 1 and (n < 8 or not valid_address(to) or not valid_address(frm))


def ens_dropped(self, old_self, result, exc):
    hw = self._rf24._spi.hw
    ohw = old_self._rf24._spi.hw
    return (exc is None and result == 0 and self.queue.n == old_self.queue.n and hw.air_n == ohw.air_n
            and hw.air_retx == ohw.air_retx and hw.rx_n == 0 and node_ok(self))


R = "spec.c15:"
CONTRACTS = [
    Contract("C15.is_address_valid", "structs:is_address_valid", {"address": OneOf(Int(), Const(None))},
             refines="spec.net_state:ref_is_address_valid", props=["C15", "C04"]),
    Contract("C15.update.drop", "mixins:NetworkMixin._net_update", {"self": net_schema()},
             requires=[R + "req_one_bad_frame"], ensures=[("dropped", R + "ens_dropped")], raises=(), policy=POL_UPD,
             props=["C15"], replayable=False),
]
