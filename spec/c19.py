"""C19 -- received BLE packets decode to what was advertised; all else is ignored safely.

available(): for ANY 32 bytes the radio returns, no exception, and an element is queued iff the
de-whitened buffer's length byte and CRC-24 are consistent (the CRC is the same uninterpreted
function as in C18, tied to the code by C18.crc24_ble.*).  QueueElement parsing: never raises for
any CRC-consistent buffer -- the structure loop carries an invariant (arbitrary turn from an
arbitrary position), so adversarial structure lengths/types are all covered.  Round trips of the
integer-valued fields are proved per field; the float (temperature) and str (URL, name) codecs
are BOUNDED native stand-ins (spec/standins.py), labelled as such."""
from pyvc.cdef import Contract, LoopSpec
from pyvc.schema import Int, Bool, Const, Bytes, ByteArray, Obj, OneOf, ListOf
from pyvc.specrt import implies, ite, oracle_int
from spec.ble_ref import crc24_of, whiten_ref, ble_channel, rev8
from spec.rf24_state import rf24_schema, inv
from spec.c18 import ble_schema, ble_ok, BPOL, ref_reverse_bits

QE = "fake_ble:QueueElement"


def rx32(self):
    """the 32 bytes at the head of the RX FIFO"""
    return self._spi.hw.rx_data[0]


def req_available(self):
    hw = self._spi.hw
    return (ble_ok(self) and self._pl_len[0] == 32 and (hw.reg[0x1D] & 4) == 0 and hw.rx_n >= 1 and hw.rx_len[0] == 32
            and len(self.rx_queue) == 0)


def logical_rx(self):
    """received bytes read LSBit first and de-whitened for the tuned channel"""
    return whiten_ref(ref_reverse_bits(rx32(self)), ble_channel(self._spi.hw.reg[5]))


def ens_gate(self, old_self, result, exc):
    """never raises; queues exactly one element iff length byte and CRC are consistent"""
    buf = logical_rx(old_self)
    end = buf[1] + 2
    good = end < 30 and buf[end:end + 3] == crc24_of(buf[:end])
    n = len(self.rx_queue)
    return (exc is None and n == ite(good, 1, 0) and result == (n > 0) and ble_ok(self)
            and self._spi.hw.rx_n == old_self._spi.hw.rx_n - 1)


def ens_gate_mac(self, old_self, exc):
    buf = logical_rx(old_self)
    if exc is not None or len(self.rx_queue) == 0:
        return exc is None
    end = buf[1] + 2
    return bytes(self.rx_queue[0].mac) == buf[:end + 3][2:8]    # a CRC-valid runt (length byte < 3) is cut before byte 8


# ---- QueueElement parsing

def req_parse(self, buffer):
    """what available() hands over: len == buffer[1] + 2 + 3 <= 32 (CRC still attached)"""
    return len(buffer) >= 11 and buffer[1] + 2 < 30 and len(buffer) == buffer[1] + 5


def inv_parse(self, buffer, end, i):
    return end == buffer[1] + 2 and 8 <= i and i <= 64 and len(buffer) == end + 3 and end < 30


def havoc_parse(self):
    """the loop only appends to self.data and assigns name / pa_level; it never reads them"""
    self.data = []
    self.name = None
    self.pa_level = None


def ens_parse_ok(self, buffer, exc):
    return exc is None and bytes(self.mac) == bytes(buffer)[2:8]


def parse_fixed(self, buffer):
    return (bytes(buffer), bytes(self.mac))


# ---- per-field round trips on concrete packet shapes with symbolic values

def pkt(fields):
    """[0x42, len] + mac + fields + 3 CRC placeholder bytes"""
    return fields


def setup_pa_batt(self, buffer, mac, pa, batt):
    pass


def mk_buffer(mac, body):
    n = 6 + len(body)
    return bytes([0x42, n]) + bytes(mac) + bytes(body) + bytes(3)


def req_shape_pa_batt(self, buffer, mac, pa, batt):
    body = bytes([2, 1, 5, 2, 0x0A, pa, 4, 0x16, 0x0F, 0x18, batt])
    return bytes(buffer) == mk_buffer(mac, body)


def ens_pa_batt(self, mac, pa, batt, exc):
    """flags, TX power (signed byte) and battery service data come back as advertised"""
    signed = ite(pa >= 128, pa - 256, pa)
    if exc is not None:
        return False
    # flags (type 1) is not a supported structure: kept raw; battery decodes to a service object
    return (bytes(self.mac) == bytes(mac) and self.pa_level == signed and len(self.data) == 2
            and bytes(self.data[0]) == bytes([2, 1, 5]) and self.data[1].data == batt)


def req_shape_raw(self, buffer, mac, raw):
    body = bytes([2, 1, 5, len(raw) + 1, 0xFF]) + bytes(raw)
    return len(raw) <= 10 and bytes(buffer) == mk_buffer(mac, body)


def ens_raw(self, mac, raw, exc):
    """an unknown/custom chunk is handed back verbatim"""
    if exc is not None:
        return False
    return (len(self.data) == 2 and bytes(self.data[1]) == bytes([len(raw) + 1, 0xFF]) + bytes(raw)
            and self.name is None and self.pa_level is None)


def req_shape_temp(self, buffer, mac, t0, t1, t2):
    body = bytes([2, 1, 5, 7, 0x16, 0x09, 0x18, t0, t1, t2, 0xFE])
    return bytes(buffer) == mk_buffer(mac, body)


def ens_temp_raw(self, t0, t1, t2, exc):
    """temperature service data keeps the 24-bit value bytes (the float scaling is a stand-in)"""
    if exc is not None:
        return False
    return len(self.data) == 2 and bytes(self.data[1]._data) == bytes([t0, t1, t2, 0xFE])


def req_shape_url(self, buffer, mac, txp, u):
    body = bytes([2, 1, 5, 5 + len(u), 0x16, 0xAA, 0xFE, 0x10, txp]) + bytes(u)
    return len(u) <= 9 and bytes(buffer) == mk_buffer(mac, body)


def ens_url_raw(self, txp, u, exc):
    """Eddystone URL: TX power byte and raw URL bytes come back (the str codec is a stand-in)"""
    if exc is not None:
        return False
    sd = self.data[1]
    return len(self.data) == 2 and bytes(sd._data) == bytes(u) and sd._type[3] == txp and bytes(sd._type)[:3] == bytes([0xAA, 0xFE, 0x10])


# ---- read()

def ens_read_fifo(self, old_self, result, exc):
    n = len(old_self.rx_queue)
    if exc is not None:
        return False
    if n == 0:
        return result is None and len(self.rx_queue) == 0
    ok = result is not None and bytes(result.mac) == bytes(old_self.rx_queue[0].mac) and len(self.rx_queue) == n - 1
    k = 0
    for e in self.rx_queue:
        ok = ok and bytes(e.mac) == bytes(old_self.rx_queue[k + 1].mac)
        k = k + 1
    return ok


R = "spec.c19:"
APOL = dict(BPOL)
APOL.update({
    "rf24:RF24.available": "ref:spec.c10:ref_available", "rf24:RF24.read": "ref:spec.c10:ref_read_default",
    "rf24:RF24.payload_length.getter": "ref:spec.c03:ref_payload_length_get",
    "fake_ble:QueueElement.__init__": "inline", "fake_ble:QueueElement._decode_data_struct": "inline",
    "fake_ble:ServiceData.*": "inline", "fake_ble:TemperatureServiceData.*": "inline", "fake_ble:BatteryServiceData.*": "inline",
    "fake_ble:UrlServiceData.*": "inline",
})
PARSE_LOOP = {(QE + ".__init__", 0): LoopSpec(R + "inv_parse", havoc=[R + "havoc_parse"], frame=R + "parse_fixed")}
QPOL = {"fake_ble:QueueElement._decode_data_struct": "inline", "fake_ble:ServiceData.*": "inline",
        "fake_ble:TemperatureServiceData.*": "inline", "fake_ble:BatteryServiceData.*": "inline", "fake_ble:UrlServiceData.*": "inline"}
MAC = Bytes(6, 6)
BUFQ = OneOf(Bytes(11, 32), ByteArray(11, 32))

CONTRACTS = [
] + [
    Contract("C19.available.gate[ch%d]" % (37 + f), "fake_ble:FakeBLE.available", {"self": ble_schema(freq=Const(f))},
             requires=[R + "req_available"], ensures=[("gate", R + "ens_gate"), ("mac", R + "ens_gate_mac")], raises=(),
             policy=APOL, loops=PARSE_LOOP, props=["C19"], replayable=False, timeout_ms=60000)
    for f in range(3)
] + [
    Contract("C19.parse.noexc", QE + ".__init__", {"self": Obj(QE, {}), "buffer": BUFQ}, requires=[R + "req_parse"],
             ensures=[("ok", R + "ens_parse_ok")], raises=(), policy=QPOL, loops=PARSE_LOOP, props=["C19"]),
    Contract("C19.parse.roundtrip.pa_battery", QE + ".__init__",
             {"self": Obj(QE, {}), "buffer": ByteArray(22, 22), "mac": MAC, "pa": Int(0, 255), "batt": Int(0, 255)},
             ghost=["mac", "pa", "batt"], requires=[R + "req_shape_pa_batt"], ensures=[("fields", R + "ens_pa_batt")], raises=(),
             policy=QPOL, props=["C19"]),
    Contract("C19.parse.roundtrip.raw_chunk", QE + ".__init__",
             {"self": Obj(QE, {}), "buffer": ByteArray(16, 26), "mac": MAC, "raw": Bytes(0, 10)},
             ghost=["mac", "raw"], requires=[R + "req_shape_raw"], ensures=[("fields", R + "ens_raw")], raises=(),
             policy=QPOL, props=["C19"]),
    Contract("C19.parse.roundtrip.temperature_bytes", QE + ".__init__",
             {"self": Obj(QE, {}), "buffer": ByteArray(22, 22), "mac": MAC, "t0": Int(0, 255), "t1": Int(0, 255), "t2": Int(0, 255)},
             ghost=["mac", "t0", "t1", "t2"], requires=[R + "req_shape_temp"], ensures=[("fields", R + "ens_temp_raw")], raises=(),
             policy=QPOL, props=["C19"]),
    Contract("C19.parse.roundtrip.url_bytes", QE + ".__init__",
             {"self": Obj(QE, {}), "buffer": ByteArray(20, 29), "mac": MAC, "txp": Int(0, 255), "u": Bytes(0, 9)},
             ghost=["mac", "txp", "u"], requires=[R + "req_shape_url"], ensures=[("fields", R + "ens_url_raw")], raises=(),
             policy=QPOL, props=["C19"]),
] + [
    Contract("C19.read.fifo[%d]" % n, "fake_ble:FakeBLE.read",
             {"self": Obj("fake_ble:FakeBLE", {"rx_queue": ListOf([Obj(QE, {"mac": Bytes(6, 6)}) for _ in range(n)])})},
             ensures=[("fifo", R + "ens_read_fifo")], raises=(), policy={}, props=["C19"])
    for n in range(4)
]
