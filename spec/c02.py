"""C02 -- send()/resend() report the true fate of the payload and terminate.

The radio's transmitter is the PTX engine of spec/hw.py (A-HW rule 3): a started attempt resolves,
after an oracle-chosen number of further SPI frames, to TX_DS or MAX_RT as a second oracle
decides (forced TX_DS when no acknowledgement is expected); the peer may attach an ACK payload.
All oracle values are universally quantified symbols, so one proof covers every loss pattern.

Waiting loops.  `while not self._in[0] & 0x30: self.update()` is explored for poll budgets 0..2
(the attempt resolves at the 2nd, 3rd or 4th poll) and the stutter lemma shows that a poll which
finds the attempt still pending changes nothing but the frame counter once STATUS is cached --
so k pending polls equal one for every k (induction) and the budget-<=2 exploration extends to
every finite budget (A-HW-LIVE).  Termination is relative to A-HW-LIVE."""
from pyvc.cdef import Contract, Lemma
from pyvc.schema import Int, Bool, Const, Bytes, ByteArray, OneOf, ListOf
from pyvc.specrt import implies, ite, oracle_int, require, assume, same_object
from spec.rf24_state import rf24_schema, inv, view_cfg
from spec.c10 import view_io
from spec.c01 import tx_payload

ENV = {"env_on": Const(True), "budget": Int(0, 2), "ackpl": Bytes(32, 32)}
ENV1 = {"env_on": Const(True), "budget": Int(0, 1), "ackpl": Bytes(32, 32)}


def send_pre(self):
    """Inv + TX mode + no attempt pending or about to start; whatever is left in the TX FIFO (a
    failed payload, possibly with payloads queued behind it by write(), up to a full FIFO) is
    announced by the cached MAX_RT/TX_FULL bit"""
    hw = self._spi.hw
    s = self._in[0]
    return (inv(self) and (hw.reg[0] & 3) == 2 and not hw.inflight
            and hw.tx_n <= 3 and (hw.tx_n == 0 or (s & 0x11) != 0)
            and implies(hw.tx_n > 0, (hw.reg[7] & 0x10) != 0 or not hw.ce)   # quiescent: nothing about to start
            and implies(hw.tx_n > 0, (hw.reg[7] & 0x60) == 0)   # flags were cleared when it was loaded; it only failed
            and implies(((s >> 1) & 7) >= 6, hw.rx_n == 0)         # a cached "RX empty" is true
            and implies(hw.tx_n > 0, hw.tx_ackpipe[0] < 0)
            and implies(hw.tx_n > 1, hw.tx_ackpipe[1] < 0) and implies(hw.tx_n > 2, hw.tx_ackpipe[2] < 0))


def send_inv(self):
    """what send()/resend() leave and resend() starts from: send_pre with at most ONE payload in
    the TX FIFO (the one that failed)"""
    return send_pre(self) and self._spi.hw.tx_n <= 1


def req_send(self, buf, ask_no_ack, force_retry, send_only):
    hw = self._spi.hw
    dyn = (hw.reg[0x1C] & 1) != 0
    return send_pre(self) and implies(dyn, 1 <= len(buf) and len(buf) <= 32)


def _ok(result):
    if isinstance(result, bool):
        return result
    return result is not None


def ens_send_fate(self, old_self, result, exc, force_retry):
    """True (or the ACK payload) iff an attempt was acknowledged/completed; False iff the first
    attempt and every forced retry ended in MAX_RT; at most 1 + force_retry attempts"""
    hw = self._spi.hw
    ohw = old_self._spi.hw
    ds = hw.n_ds - ohw.n_ds
    rt = hw.n_rt - ohw.n_rt
    att = hw.att_n - ohw.att_n
    if exc is not None:
        return False
    if _ok(result):
        return ds == 1 and rt <= force_retry and att == ds + rt and not hw.inflight
    return ds == 0 and rt == 1 + force_retry and att == rt and not hw.inflight


def ens_send_own_payload(self, old_self, old_buf, exc):
    """a failed payload never leaks: exactly one payload is loaded and every attempt of this
    call transmits it from a TX FIFO that holds nothing else"""
    hw = self._spi.hw
    ohw = old_self._spi.hw
    p = tx_payload(old_self, old_buf)
    return (exc is None and hw.loaded == ohw.loaded + 1 and hw.att_txn == 1 and hw.att_len == len(p)
            and hw.att_data[:len(p)] == p)


def ens_send_ackpl(self, old_self, result, exc, send_only):
    """with an ACK payload received and send_only off, the result is that payload"""
    hw = self._spi.hw
    ohw = old_self._spi.hw
    if exc is not None:
        return False
    got = hw.ack_rx > ohw.ack_rx
    if send_only:
        # send_only: the outcome is a bool and the RX FIFO is not manipulated (it only grows by
        # the ACK payloads that arrive)
        return isinstance(result, bool) and hw.rx_n == ohw.rx_n + (hw.ack_rx - ohw.ack_rx)
    if got and not send_only:
        return (not isinstance(result, bool)) and result is not None and bytes(result) == hw.ackpl[:len(result)]
    if not got and _ok(result):
        return isinstance(result, bool) or not send_only
    return True


def ens_send_inv(self, exc):
    return exc is None and send_inv(self)


def req_resend(self, send_only):
    return send_inv(self)


def ens_resend(self, old_self, result, exc, send_only):
    """nothing to resend -> False and no attempt; otherwise exactly the FIFO head is retransmitted
    once and the result is its fate"""
    hw = self._spi.hw
    ohw = old_self._spi.hw
    if exc is not None:
        return False
    ds = hw.n_ds - ohw.n_ds
    rt = hw.n_rt - ohw.n_rt
    att = hw.att_n - ohw.att_n
    if ohw.tx_n == 0:
        return isinstance(result, bool) and not result and att == 0 and hw.loaded == ohw.loaded
    same = (hw.att_len == ohw.tx_len[0] and hw.att_data == ohw.tx_data[0] and hw.att_txn == ohw.tx_n
            and hw.loaded == ohw.loaded)
    return att == 1 and same and not hw.inflight and ite(_ok(result), ds == 1 and rt == 0, ds == 0 and rt == 1)


# ---- stutter lemma: a poll that finds the attempt still pending changes nothing

def req_pending(self):
    hw = self._spi.hw
    return inv(self) and hw.inflight and (hw.reg[7] & 0x30) == 0 and self._in[0] == hw.status()


def ens_stutter(self, old_self, exc):
    """if the attempt is still pending after update(), the whole abstract state (registers,
    FIFOs, latches, shadows, cached STATUS) is exactly what it was: so k pending polls equal one
    for every k, and the loop condition `not _in[0] & 0x30` stays true"""
    hw = self._spi.hw
    return exc is None and implies(hw.inflight, view_io(self) == view_io(old_self) and (self._in[0] & 0x30) == 0)


R = "spec.c02:"
INL = {"rf24:RF24.*": "inline"}
BUFS = OneOf(Bytes(0, None), ByteArray(0, None))


def _send(name, buf, fr, env=ENV, noack=Bool(), so=Bool()):
    return Contract(name, "rf24:RF24.send",
                    {"self": rf24_schema(p0=Const(None), env=env), "buf": buf, "ask_no_ack": noack, "force_retry": fr, "send_only": so},
                    requires=[R + "req_send"],
                    ensures=[("fate", R + "ens_send_fate"), ("own_payload", R + "ens_send_own_payload"), ("ackpl", R + "ens_send_ackpl"),
                             ("send_inv", R + "ens_send_inv")],
                    raises=(), policy=INL, props=["C02"], max_paths=20000, timeout_ms=60000, poll_bound=12)


CONTRACTS = [
    _send("C02.send[fr=0,send_only]", Bytes(0, None), Const(0), ENV, Bool(), Const(True)),
    _send("C02.send[fr=0]", Bytes(0, None), Const(0), ENV, Bool(), Const(False)),
    _send("C02.send[fr=1,send_only]", Bytes(0, None), Const(1), ENV1, Bool(), Const(True)),
    _send("C02.send[fr=1,ack]", Bytes(0, None), Const(1), ENV1, Const(False), Const(False)),
    _send("C02.send[fr=1,noack]", Bytes(0, None), Const(1), ENV1, Const(True), Const(False)),
    _send("C02.send[fr=2,bytearray,send_only]", ByteArray(0, None), Const(2), ENV1, Bool(), Const(True)),
    _send("C02.send[fr=2,bytearray,ack]", ByteArray(0, None), Const(2), ENV1, Const(False), Const(False)),
    _send("C02.send[fr=2,bytearray,noack]", ByteArray(0, None), Const(2), ENV1, Const(True), Const(False)),
    Contract("C02.update.stutter", "rf24:RF24.update",
             {"self": rf24_schema(p0=Const(None), env={"env_on": Const(True), "budget": Int(0, 1000), "inflight": Const(True), "ackpl": Bytes(32, 32)})},
             requires=[R + "req_pending"], ensures=[("stutter", R + "ens_stutter")], raises=(), policy=INL, props=["C02"]),
    Contract("C02.resend", "rf24:RF24.resend", {"self": rf24_schema(p0=Const(None), env=ENV), "send_only": Bool()},
             requires=[R + "req_resend"], ensures=[("fate", R + "ens_resend"), ("send_inv", R + "ens_send_inv")],
             raises=(), policy=INL, props=["C02"], max_paths=20000, timeout_ms=60000, poll_bound=12),
]


# ---- send(list/tuple): one result per payload, in order (recursion by contract)

def abs_send_one(self, buf, ask_no_ack, force_retry, send_only):
    """contract of send() for ONE payload as proved by C02.send[*]: from send_pre to send_inv, the
    configuration untouched; ghost record of the call and of the value it returned"""
    require(not isinstance(buf, (list, tuple)), "send: a single payload")
    require(req_send(self, buf, ask_no_ack, force_retry, send_only), "send: send_pre; 1..32 bytes when dynamic payloads are on")
    self.s_bufs.append(bytes(buf))
    self.s_noack.append(ask_no_ack)
    self.s_retry.append(force_retry)
    self.s_only.append(send_only)
    hw = self._spi.hw
    self._in[0] = oracle_int(0, 255)
    hw.tx_n = oracle_int(0, 3)
    hw.rx_n = oracle_int(0, 3)
    hw.reg[7] = oracle_int(0, 7) * 16
    hw.reg[8] = oracle_int(0, 255)
    hw.ce = oracle_int(0, 1) == 1
    hw.inflight = False
    for k in range(3):
        hw.tx_ackpipe[k] = oracle_int(-1, 5)
    assume(send_inv(self))
    kind = oracle_int(0, 2)
    if kind == 0:
        r = False
    elif kind == 1:
        r = True
    else:
        cells = []
        for k in range(32):
            cells.append(oracle_int(0, 255))
        r = bytearray(bytes(cells)[:oracle_int(1, 32)])
    self.s_res.append(r)
    return r


def req_send_list(self, buf, ask_no_ack, force_retry, send_only):
    hw = self._spi.hw
    dyn = (hw.reg[0x1C] & 1) != 0
    ok = send_pre(self) and 0 <= force_retry and force_retry <= 1000
    for b in buf:
        ok = ok and implies(dyn, 1 <= len(b) and len(b) <= 32)
    return ok


def ens_send_list(self, old_buf, buf, ask_no_ack, force_retry, send_only, result, exc):
    """one send() per element, in order, each with that element and the caller's flags; the result
    is the list of what those calls returned, in order; the caller's sequence is untouched"""
    n = len(old_buf)
    if exc is not None:
        return False
    ok = (isinstance(result, list) and len(result) == n and len(self.s_bufs) == n and len(buf) == n
          and implies(n > 0, send_inv(self)))
    for j in range(n):
        ok = (ok and self.s_bufs[j] == bytes(old_buf[j]) and bytes(buf[j]) == bytes(old_buf[j]) and same_object(result[j], self.s_res[j])
              and self.s_noack[j] == ask_no_ack and self.s_retry[j] == force_retry and self.s_only[j] == send_only)
    return ok


SREC = {"s_bufs": Const([]), "s_noack": Const([]), "s_retry": Const([]), "s_only": Const([]), "s_res": Const([])}
POL_LIST = dict(INL)
POL_LIST["rf24:RF24.send"] = "ref:" + R + "abs_send_one"
from pyvc.schema import TupleOf  # noqa: E402
ELEM = OneOf(Bytes(0, 40), ByteArray(0, 40))
CONTRACTS += [
    Contract("C02.send.list[%s,n=%d]" % (kind, n), "rf24:RF24.send",
             {"self": rf24_schema(p0=Const(None), env=ENV, extra=SREC),
              "buf": (ListOf if kind == "list" else TupleOf)([ELEM for _ in range(n)]),
              "ask_no_ack": Bool(), "force_retry": Int(0, 1000), "send_only": Bool()},
             requires=[R + "req_send_list"], ensures=[("one_result_per_payload_in_order", R + "ens_send_list")],
             raises=(), policy=POL_LIST, props=["C02"], replayable=False)
    for kind, n in (("list", 0), ("list", 1), ("list", 2), ("list", 3), ("tuple", 2))
]


# ---- the network layer's abstraction of send()/resend() is SOUND w.r.t. the real bodies ---------------
# C05/C07/C11/C13/C14/C15/C17 replace RF24.send(buf, send_only=True) and RF24.resend(send_only=True) by
# spec/net_state.py ref_send_net / ref_resend_net: "the payload is handed over, an oracle decides the
# outcome, CE is left high, the TX FIFO ends empty (sent) or holding the failed payload, the cached STATUS
# is current, nothing else changes" (+ OBSERVE_TX and the RX_DR latch arbitrary).  Until now that link was
# ARGUED from C02's clauses.  Here it is an obligation on the REAL bodies, under the PTX engine with
# universally quantified outcomes: every post-state of the real call is one the abstraction allows for
# ok == result.  Premise: no ACK payload arrives (network peers never load one).  What stays argued: that
# the network layer's call sites establish send_pre / send_inv (they call send/resend only after
# send/resend/read/listen, each of which keeps it).

def cfg_and_rx(hw):
    """everything the abstraction promises NOT to change: configuration and address registers, RX FIFO"""
    r = hw.reg
    return (r[0], r[1], r[2], r[3], r[4], r[5], r[6], r[9], bytes(hw.addr0), bytes(hw.addr1), r[0x0C], r[0x0D], r[0x0E], r[0x0F],
            bytes(hw.txaddr), r[0x11], r[0x12], r[0x13], r[0x14], r[0x15], r[0x16], r[0x1C], r[0x1D],
            hw.rx_n, hw.rx_pipe[0], hw.rx_pipe[1], hw.rx_pipe[2], hw.rx_len[0], hw.rx_len[1], hw.rx_len[2],
            hw.rx_data[0], hw.rx_data[1], hw.rx_data[2], hw.bad_write, hw.ce_log)


def ens_send_simulates(self, old_self, old_buf, result, exc):
    hw = self._spi.hw
    ohw = old_self._spi.hw
    if exc is not None:
        return False
    if hw.ack_rx != ohw.ack_rx:
        return True                       # premise: no ACK payload arrived
    ok = isinstance(result, bool) and result
    return (isinstance(result, bool) and hw.ce and not hw.inflight
            and hw.tx_n == ite(ok, 0, 1) and (hw.reg[7] & 0x30) == ite(ok, 0x20, 0x10)
            and self._in[0] == hw.status()
            and cfg_and_rx(hw) == cfg_and_rx(ohw)
            and view_cfg_shadows(self) == view_cfg_shadows(old_self))


def ens_resend_simulates(self, old_self, result, exc):
    hw = self._spi.hw
    ohw = old_self._spi.hw
    if exc is not None:
        return False
    if hw.ack_rx != ohw.ack_rx:
        return True
    ok = isinstance(result, bool) and result
    base = (isinstance(result, bool) and not hw.inflight and self._in[0] == hw.status()
            and cfg_and_rx(hw) == cfg_and_rx(ohw) and view_cfg_shadows(self) == view_cfg_shadows(old_self))
    if ohw.tx_n == 0:
        return base and not ok and hw.tx_n == 0 and hw.ce == ohw.ce and (hw.reg[7] & 0x30) == (ohw.reg[7] & 0x30)
    return base and hw.ce and hw.tx_n == ite(ok, 0, ohw.tx_n) and (hw.reg[7] & 0x30) == ite(ok, 0x20, 0x10)


def view_cfg_shadows(self):
    return (self._config, self._aa, self._open_pipes, self._addr_len, self._retry_setup, self._channel, self._rf_setup,
            self._dyn_pl, self._features, self._pl_len[0], self._pl_len[1], self._pl_len[2], self._pl_len[3], self._pl_len[4],
            self._pl_len[5], bytes(self._pipes[0]), bytes(self._pipes[1]), self._pipes[2], self._pipes[3], self._pipes[4],
            self._pipes[5], bytes(self._tx_address), self._pipe0_read_addr)


def req_send_net(self, buf, ask_no_ack, force_retry, send_only):
    return req_send(self, buf, ask_no_ack, force_retry, send_only) and 1 <= len(buf) and len(buf) <= 32


CONTRACTS += [
    Contract("C02.send.simulates_net_abstraction", "rf24:RF24.send",
             {"self": rf24_schema(p0=Const(None), env=ENV), "buf": Bytes(0, None), "ask_no_ack": Const(False), "force_retry": Const(0),
              "send_only": Const(True)},
             requires=[R + "req_send_net"], ensures=[("allowed_by_ref_send_net", R + "ens_send_simulates")],
             raises=(), policy=INL, props=["C02", "C05", "C07", "C15"], max_paths=20000, timeout_ms=60000, poll_bound=12),
    Contract("C02.resend.simulates_net_abstraction", "rf24:RF24.resend", {"self": rf24_schema(p0=Const(None), env=ENV), "send_only": Const(True)},
             requires=[R + "req_resend"], ensures=[("allowed_by_ref_resend_net", R + "ens_resend_simulates")],
             raises=(), policy=INL, props=["C02", "C05", "C07", "C15"], max_paths=20000, timeout_ms=60000, poll_bound=12),
]
