"""BOUNDED native stand-ins (run under /venv/bin/python by bin/check; never counted as proved).
Each returns {"name", "bound", "evaluations", "failures": [first few failing inputs]}."""
import itertools


def temperature_roundtrip():
    from circuitpython_nrf24l01.fake_ble import TemperatureServiceData
    fails = []
    n = 0
    for c in range(-30000, 30001):
        t = c / 100.0
        s = TemperatureServiceData()
        s.data = t
        r = TemperatureServiceData()
        r.data = bytes(s.data_bytes) if hasattr(s, "data_bytes") else bytes(s._data)
        n += 1
        if abs(r.data - t) > 0.0051:
            if len(fails) < 5:
                fails.append({"advertised": t, "decoded": r.data})
    return {"name": "temperature_roundtrip", "bound": "all 60001 values -300.00..+300.00", "evaluations": n, "failures": fails}


def url_roundtrip():
    from circuitpython_nrf24l01.fake_ble import UrlServiceData
    fails = []
    n = 0
    alphabet = "az09-_"
    bodies = [""] + ["".join(p) for k in (1, 2, 3) for p in itertools.product(alphabet, repeat=k)]
    for pre in UrlServiceData.codex_prefix:
        for suf in [""] + UrlServiceData.codex_suffix:
            for body in bodies[::7] + ["nrf24", "a-b_c"]:
                url = pre + body + suf
                s = UrlServiceData()
                s.data = url
                r = UrlServiceData()
                r.data = bytes(s._data)
                n += 1
                if r.data != url and len(fails) < 5:
                    fails.append({"advertised": url, "decoded": r.data})
    return {"name": "url_roundtrip", "bound": "4 prefixes x 15 suffix options x %d bodies" % (len(bodies[::7]) + 2), "evaluations": n, "failures": fails}


def crc_bit_errors():
    from circuitpython_nrf24l01.fake_ble import crc24_ble
    base = bytes((7 * i + 3) & 0xFF for i in range(23))
    good = bytes(crc24_ble(base))
    pkt = bytearray(base + good)
    nbits = len(pkt) * 8
    fails = []
    n = 0

    def flip(p, i):
        p[i // 8] ^= 1 << (i % 8)
    for i in range(nbits):
        for j in range(i, nbits):
            p = bytearray(pkt)
            flip(p, i)
            if j != i:
                flip(p, j)
            n += 1
            if bytes(crc24_ble(bytes(p[:-3]))) == bytes(p[-3:]) and len(fails) < 5:
                fails.append({"flipped_bits": [i, j]})
    return {"name": "crc_bit_errors", "bound": "all single and double bit flips of one 26-byte packet", "evaluations": n, "failures": fails}
