"""Second solver: /usr/bin/cvc5 on the SMT-LIB2 dump of a VC (takes z3's unknowns; re-checks in the
thorough tier)."""
import os
import subprocess
import tempfile

CVC5 = "/usr/bin/cvc5"


def cvc5_check(smt2_text, timeout_ms=20000):
    if not os.path.exists(CVC5):
        return "unknown"
    fd, path = tempfile.mkstemp(suffix=".smt2", prefix="pyvc_")
    try:
        with os.fdopen(fd, "w") as f:
            # z3's to_smt2 emits (check-sat) already
            f.write("(set-logic ALL)\n" + smt2_text)
        try:
            p = subprocess.run([CVC5, "--tlimit=%d" % timeout_ms, path], capture_output=True, text=True,
                               timeout=timeout_ms / 1000.0 + 10)
        except subprocess.TimeoutExpired:
            return "unknown"
        out = p.stdout.strip().splitlines()
        for line in out:
            if line.strip() in ("sat", "unsat", "unknown"):
                return line.strip()
        return "unknown"
    finally:
        try:
            os.unlink(path)
        except OSError:
            pass
