"""Generic drivers: build the symbolic pre-state from a schema, run requires / body / reference /
ensures through the interpreter, emit obligations."""
import fnmatch

from . import sym, bts, ops, schema as S
from .sym import SInt, SBool, Unsupported, cmp, b_and, b_not
from .core import Ref, HObj, HList, HByteArray, HDict, HSet, VBytes, PyRaise, PathEnd
from .frontend import FuncInfo


# ------------------------------------------------------------------------------ symbolic builder

def build_sym(it, node, label, shared):
    ctx = it.ctx
    if isinstance(node, S.Int):
        if node.lo == node.hi:
            return node.lo
        return ctx.input_int(label, node.lo, node.hi)
    if isinstance(node, S.Bool):
        return ctx.input_bool(label)
    if isinstance(node, S.Const):
        v = node.v
        if isinstance(v, bytes):
            return VBytes(bts.from_bytes(v))
        if isinstance(v, bytearray):
            return ctx.alloc(HByteArray(bts.from_bytes(bytes(v))))
        if isinstance(v, list):
            return ctx.alloc(HList(list(v)))
        return v
    if isinstance(node, S.Bytes):
        if node.minlen == node.maxlen:
            term = bts.from_cells([ctx.input_byte("%s[%d]" % (label, k)) for k in range(node.minlen)])
        elif ctx.concrete is not None:
            n = int(ctx.concrete.get(label + "#len", node.minlen))
            arr = ctx.concrete.get(label, [])
            term = bts.from_cells([(int(arr[k]) & 0xFF) if k < len(arr) else 0 for k in range(n)])
        else:
            hi = node.maxlen if node.maxlen is not None else S.A_LEN_HI
            n = ctx.input_int(label + "#len", node.minlen, hi)
            arr = ctx.input_array(label)
            term = bts.from_array(arr, n, maxlen=node.maxlen)
        if node.mutable:
            return ctx.alloc(HByteArray(term))
        return VBytes(term)
    if isinstance(node, S.ListOf):
        return ctx.alloc(HList([build_sym(it, x, "%s[%d]" % (label, k), shared) for k, x in enumerate(node.items)]))
    if isinstance(node, S.TupleOf):
        return tuple(build_sym(it, x, "%s[%d]" % (label, k), shared) for k, x in enumerate(node.items))
    if isinstance(node, S.Obj):
        cls = it.program.cls(node.cls)
        ref = ctx.alloc(HObj(cls))
        o = ctx.obj(ref)
        for f, sub in node.fields.items():
            o.fields[f] = build_sym(it, sub, label + "." + f, shared)
        return ref
    if isinstance(node, S.OneOf):
        n = len(node.alts)
        if n == 1:
            return build_sym(it, node.alts[0], "%s|0" % label, shared)
        k = ctx.input_int(label + "#alt", 0, n - 1)
        for j in range(n - 1):
            if ctx.branch(cmp("==", k, j)):
                return build_sym(it, node.alts[j], "%s|%d" % (label, j), shared)
        ctx.assume(cmp("==", k, n - 1))
        return build_sym(it, node.alts[n - 1], "%s|%d" % (label, n - 1), shared)
    if isinstance(node, S.Share):
        if node.name in shared:
            return shared[node.name]
        v = build_sym(it, node.node, "$" + node.name, shared)
        shared[node.name] = v
        return v
    if isinstance(node, S.DictOf):
        keys, vals = [], []
        for k in range(node.n):
            keys.append(build_sym(it, node.key, "%s.k%d" % (label, k), shared))
            vals.append(build_sym(it, node.val, "%s.v%d" % (label, k), shared))
        # dict keys are distinct by construction
        for i in range(len(keys)):
            for j in range(i):
                ctx.assume(b_not(ops.values_eq(it, keys[i], keys[j])))
        return ctx.alloc(HDict(keys, vals))
    raise Unsupported("schema node %r" % (node,))


def deepcopy(it, v, memo):
    ctx = it.ctx
    if isinstance(v, Ref):
        if v.oid in memo:
            return memo[v.oid]
        o = ctx.obj(v)
        if isinstance(o, HObj):
            new = ctx.alloc(HObj(o.cls))
            memo[v.oid] = new
            no = ctx.obj(new)
            for k, x in o.fields.items():
                no.fields[k] = deepcopy(it, x, memo)
            return new
        if isinstance(o, HList):
            new = ctx.alloc(HList([]))
            memo[v.oid] = new
            ctx.obj(new).items.extend(deepcopy(it, x, memo) for x in o.items)
            return new
        if isinstance(o, HByteArray):
            new = ctx.alloc(HByteArray(o.term))
            memo[v.oid] = new
            return new
        if isinstance(o, HDict):
            new = ctx.alloc(HDict([deepcopy(it, x, memo) for x in o.keys], [deepcopy(it, x, memo) for x in o.vals]))
            memo[v.oid] = new
            return new
        if isinstance(o, HSet):
            new = ctx.alloc(HSet([deepcopy(it, x, memo) for x in o.items]))
            memo[v.oid] = new
            return new
    if isinstance(v, tuple):
        return tuple(deepcopy(it, x, memo) for x in v)
    return v


# ------------------------------------------------------------------------------ policy

def make_policy(program, table):
    """table: callee key pattern -> 'inline' | 'ref:<spec key>'.  Unlisted repository callees
    are an error (UNDECIDED), except unlisted PRIVATE helpers (`_name`), which are verified as part
    of their caller and reported (DESIGN App. D, 10.4)."""
    items = list(table.items())
    cache = {}

    def policy(it, fi, args, kwargs):
        key = fi.key
        if key in cache:
            return cache[key]
        dec = table.get(key)          # an exact entry wins over a pattern
        if dec is None:
            for pat, d in items:
                if fnmatch.fnmatchcase(key, pat):
                    dec = d
                    break
        if dec is None:
            simple = key.rsplit(":", 1)[-1].rsplit(".", 1)[-1]
            if simple.startswith("_") and not simple.startswith("__") and not key.startswith("spec."):
                # a PRIVATE helper nobody wrote a contract for (typically extracted by a refactoring):
                # verified as part of its caller -- always sound, and recorded in the evidence
                dec = "inline"
                it.ctx.notes.append("auto-inline " + key)
        if dec is None:
            raise Unsupported("no contract for callee " + key)
        if dec == "inline":
            out = ("inline",)
        elif dec.startswith("ref:"):
            body, _, pre = dec[4:].partition("|pre:")
            out = ("ref", program.func(body), program.func(pre) if pre else None)
        else:
            raise Unsupported("bad policy entry %r" % (dec,))
        cache[key] = out
        return out
    return policy


# ------------------------------------------------------------------------------ calling predicates

def call_by_name(it, fi, env):
    params = [a.arg for a in fi.node.args.args]
    args = []
    for p in params:
        if p not in env:
            raise Unsupported("spec function %s wants unknown parameter %s" % (fi.key, p))
        args.append(env[p])
    return it.call_function(fi, args, {})


def view_pairs(it, v):
    """view(...) -> tuple of (name, value)"""
    out = []
    if not isinstance(v, tuple):
        raise Unsupported("view must return a tuple of (name, value) pairs")
    for item in v:
        if not (isinstance(item, tuple) and len(item) == 2 and isinstance(item[0], str)):
            raise Unsupported("view must return a tuple of (name, value) pairs")
        out.append(item)
    return out


def _diff_components(ctx, eqs):
    """which named view components can differ (under the last counter-model's path)"""
    import z3
    bad = []
    for n, e in eqs:
        if isinstance(e, bool):
            if not e:
                bad.append(n)
            continue
        if ctx._check(z3.Not(e.e)) == z3.sat:
            bad.append(n)
    return bad


def _results_eq(it, a, b, memo_old, memo_ref):
    """result of the body vs result of the reference: an object of the pre-state corresponds to
    its copy in the reference's world; everything else is compared by value"""
    if isinstance(a, Ref) and isinstance(b, Ref) and isinstance(it.ctx.obj(a), HObj):
        old = memo_old.get(a.oid)
        if old is not None:
            cp = memo_ref.get(old.oid)
            return cp is not None and cp.oid == b.oid
        return False
    if isinstance(a, tuple) and isinstance(b, tuple) and len(a) == len(b):
        return b_and(*[_results_eq(it, x, y, memo_old, memo_ref) for x, y in zip(a, b)])
    return ops.values_eq(it, a, b)


def contract_driver(program, c, findings=()):
    target = program.func(c.target)
    policy = make_policy(program, c.policy)
    requires = [program.func(k) for k in c.requires]
    _r = c.refines if isinstance(c.refines, (list, tuple)) else ([c.refines] if c.refines else [])
    refs_f = [program.func(k) for k in _r]
    view = program.func(c.view) if c.view else None
    ensures = [(n, program.func(k)) for n, k in c.ensures]
    allkeys = list(c.state.keys())
    order = [k for k in allkeys if k not in c.ghost]
    fnd = [(f, program.func(f.when)) for f in findings]

    def driver(it):
        ctx = it.ctx
        ctx.loop_specs = {}
        shared = {}
        vals = {}
        for k in allkeys:
            vals[k] = build_sym(it, c.state[k], k, shared)
        env = dict(vals)
        for sk in c.setup:
            call_by_name(it, program.func(sk), env)
        for r in requires:
            ctx.assume(ops.truthy(it, call_by_name(it, r, env)))
        # known findings: the listed failing class is excused (assume not when)
        for f, when in fnd:
            ctx.assume(b_not(ops.truthy(it, call_by_name(it, when, env))))
        if not ctx.feasible():
            raise PathEnd()
        ctx.notes.append("pre")
        memo_old = {}
        olds = {k: deepcopy(it, v, memo_old) for k, v in vals.items()}
        old_class_state = dict(ctx.class_state)
        ctx.ghost["entry_oid"] = ctx.next_oid
        ctx.ghost["contract_name"] = c.name
        ctx.policy = policy
        ctx.ghost["in_body"] = True
        ctx.loop_specs = c.loops
        ctx.poll_bound = getattr(c, 'poll_bound', None)
        exc = None
        result = None
        try:
            kws = dict(c.call_kwargs)
            for k in c.kw:
                kws[k] = vals[k]
            result = it.call_function(target, [vals[k] for k in order if k not in c.kw], kws, force_inline=True)
        except PyRaise as e:
            if e.type_name == "SpecUnreachable":
                raise Unsupported("spec reached unreachable()")
            exc = e.type_name
        finally:
            ctx.policy = None
            ctx.ghost["in_body"] = False
            ctx.loop_specs = {}
        label = "ret" if exc is None else "raise " + exc
        ctx.notes.append(label)
        if ctx.concrete is not None:
            cap = {"exc": exc, "result": result}
            if view is not None:
                try:
                    cap["view"] = view_pairs(it, it.call_function(view, [vals[order[0]]], {}))
                except PyRaise as e:
                    cap["view_error"] = e.type_name
            ctx.ghost["capture"] = cap
        # ---- refinement of a reference function (or of one of several admissible ones)
        if refs_f:
            body_cs = dict(ctx.class_state)
            alts = []
            for ri, rf in enumerate(refs_f):
                ctx.class_state = dict(old_class_state)
                memo_ref = {}
                rvals = {k: deepcopy(it, v, memo_ref) for k, v in olds.items()}
                exc2 = None
                r2 = None
                try:
                    r2 = it.call_function(rf, [rvals[k] for k in order], {})
                except PyRaise as e:
                    if e.type_name == "SpecUnreachable":
                        raise Unsupported("spec reached unreachable()")
                    exc2 = e.type_name
                same_out = exc == exc2
                res_eq = True
                if same_out and exc is None:
                    res_eq = _results_eq(it, result, r2, memo_old, memo_ref)
                eqs = []
                if same_out and view is not None:
                    va = view_pairs(it, it.call_function(view, [vals[order[0]]], {}))
                    vb = view_pairs(it, it.call_function(view, [rvals[order[0]]], {}))
                    if [n for n, _ in va] != [n for n, _ in vb]:
                        raise Unsupported("views differ in shape")
                    eqs = [(n, ops.values_eq(it, x, y)) for (n, x), (_, y) in zip(va, vb)]
                alts.append((same_out, res_eq, eqs, "ret" if exc2 is None else "raise " + exc2))
            ctx.class_state = body_cs
            if len(alts) == 1:
                same_out, res_eq, eqs, rl = alts[0]
                ok = ctx.oblige(c.name + ".outcome", same_out, info={"body": label, "ref": rl})
                if ok and exc is None:
                    ctx.oblige(c.name + ".result", res_eq, info={"kind": "result"})
                if ok and view is not None:
                    conj = b_and(*[e for _, e in eqs])
                    good = ctx.oblige(c.name + ".state", conj, info={"kind": "state"})
                    if not good:
                        ctx.obligations[-1].info = {"kind": "state", "components": _diff_components(ctx, eqs)}
            else:
                disj = []
                for same_out, res_eq, eqs, rl in alts:
                    if same_out:
                        disj.append(b_and(res_eq, *[e for _, e in eqs]))
                from .sym import b_or
                ctx.oblige(c.name + ".refines_one_of", b_or(*disj) if disj else False,
                           info={"body": label, "refs": [a[3] for a in alts]})
        # ---- predicate clauses
        env2 = dict(vals)
        for k, v in olds.items():
            env2["old_" + k] = v
        env2["result"] = result
        env2["exc"] = exc
        for n, pred in ensures:
            try:
                val = ops.truthy(it, call_by_name(it, pred, env2))
            except PyRaise as e:
                # the postcondition cannot even be evaluated on this post-state (wrong shape): it fails
                ctx.oblige(c.name + "." + n, False, info={"outcome": label, "postcondition_raised": e.type_name})
                continue
            ctx.oblige(c.name + "." + n, val, info={"outcome": label})
        if not refs_f and exc is not None and c.raises is not None and exc not in c.raises:
            ctx.oblige(c.name + ".noexc", False, info={"raised": exc})
        return label
    return driver


def lemma_driver(program, lm):
    pred = program.func(lm.pred)
    requires = [program.func(k) for k in lm.requires]
    order = list(lm.state.keys())

    def driver(it):
        ctx = it.ctx
        shared = {}
        env = {}
        for k in order:
            env[k] = build_sym(it, lm.state[k], k, shared)
        for r in requires:
            ctx.assume(ops.truthy(it, call_by_name(it, r, env)))
        if not ctx.feasible():
            raise PathEnd()
        ctx.notes.append("pre")
        try:
            v = call_by_name(it, pred, env)
        except PyRaise as e:
            ctx.oblige(lm.name, False, info={"raised": e.type_name})
            return "raise"
        ctx.oblige(lm.name, ops.truthy(it, v))
        return "ret"
    return driver
