"""Front end: re-reads the real source from --repo on every run (ast.parse), builds the class
table / MRO / property table.  Nothing is cached between runs and there is no hand-copied text of
any repository function."""
import ast
import os

from .core import Opaque, BuiltinFn, ModuleVal, PropRef
from .sym import Unsupported

PKG = "circuitpython_nrf24l01"


class FuncInfo:
    def __init__(self, name, node, module, cls=None, closure=None):
        self.name = name
        self.node = node
        self.module = module
        self.cls = cls
        self.closure = closure
        self.qualname = (cls.name + "." + name) if cls else name
        self.kind = "func"  # 'func' | 'getter' | 'setter'

    @property
    def is_spec(self):
        return self.module.is_spec

    @property
    def key(self):
        k = self.module.short + ":" + self.qualname
        if self.kind != "func":
            k += "." + self.kind
        return k

    def __repr__(self):
        return "<func %s>" % self.key


class ClassInfo:
    def __init__(self, name, module, bases):
        self.name = name
        self.module = module
        self.bases = bases
        self.methods = {}
        self.props = {}   # name -> [getter, setter]
        self.attrs = {}
        self.mro = self._c3()

    def _c3(self):
        seqs = [list(b.mro) for b in self.bases] + [list(self.bases)]
        res = [self]
        while True:
            seqs = [s for s in seqs if s]
            if not seqs:
                return res
            for s in seqs:
                cand = s[0]
                if not any(cand in t[1:] for t in seqs):
                    break
            else:
                raise Unsupported("inconsistent MRO for " + self.name)
            res.append(cand)
            for s in seqs:
                if s[0] is cand:
                    del s[0]

    @property
    def key(self):
        return self.module.short + ":" + self.name

    def find_method(self, name, after=None):
        mro = self.mro
        if after is not None:
            mro = mro[mro.index(after) + 1:]
        for c in mro:
            if name in c.methods:
                return c.methods[name]
        return None

    def find_prop(self, name, after=None):
        mro = self.mro
        if after is not None:
            mro = mro[mro.index(after) + 1:]
        for c in mro:
            if name in c.props:
                return c.props[name]
            if name in c.methods or name in c.attrs:
                return None
        return None

    def find_attr(self, name):
        for c in self.mro:
            if name in c.attrs:
                return c, c.attrs[name]
        return None, None

    def issubclass(self, other):
        return other in self.mro

    def __repr__(self):
        return "<class %s>" % self.key


class ModuleInfo:
    def __init__(self, name, path, is_spec):
        self.name = name
        self.path = path
        self.is_spec = is_spec
        self.globals = {}
        self.short = name[len(PKG) + 1:] if name.startswith(PKG + ".") else name
        if self.short.startswith("network."):
            self.short = self.short[len("network."):]
        if self.short.startswith("wrapper."):
            self.short = self.short[len("wrapper."):]


class Program:
    def __init__(self, repo_root, verif_root):
        self.repo_root = repo_root
        self.verif_root = verif_root
        self.modules = {}
        self.loading = set()
        self.sources = {}

    def module_path(self, name):
        parts = name.split(".")
        if parts[0] == PKG:
            base = os.path.join(self.repo_root, *parts)
        elif parts[0] == "spec":
            base = os.path.join(self.verif_root, *parts)
        else:
            return None
        if os.path.isdir(base):
            return os.path.join(base, "__init__.py")
        return base + ".py"

    def load(self, name):
        if name in self.modules:
            return self.modules[name]
        path = self.module_path(name)
        if path is None or not os.path.exists(path):
            raise Unsupported("cannot locate module " + name)
        if name in self.loading:
            raise Unsupported("circular import of " + name)
        self.loading.add(name)
        with open(path) as f:
            src = f.read()
        self.sources[name] = src
        tree = ast.parse(src, filename=path)
        mod = ModuleInfo(name, path, is_spec=name.startswith("spec"))
        mod.is_pkg = path.endswith("__init__.py")
        self.modules[name] = mod
        from .interp import Interp
        Interp(self).exec_module(mod, tree)
        self.loading.discard(name)
        return mod

    def func(self, key):
        """'rf24:RF24.channel.setter' / 'structs:is_address_valid' / 'spec.rf24_ref:ref_x'"""
        modname, _, qual = key.partition(":")
        mod = self.load(self.full_name(modname))
        parts = qual.split(".")
        if len(parts) == 1:
            v = mod.globals.get(parts[0])
            if not isinstance(v, FuncInfo):
                raise Unsupported("no function " + key)
            return v
        cls = mod.globals.get(parts[0])
        if not isinstance(cls, ClassInfo):
            raise Unsupported("no class for " + key)
        if len(parts) == 3 and parts[2] in ("getter", "setter"):
            p = cls.find_prop(parts[1])
            if p is None:
                raise Unsupported("no property " + key)
            f = p[0] if parts[2] == "getter" else p[1]
            if f is None:
                raise Unsupported("no property accessor " + key)
            return f
        f = cls.find_method(parts[1])
        if f is None:
            raise Unsupported("no method " + key)
        return f

    def cls(self, key):
        modname, _, name = key.partition(":")
        mod = self.load(self.full_name(modname))
        c = mod.globals.get(name)
        if not isinstance(c, ClassInfo):
            raise Unsupported("no class " + key)
        return c

    SHORT = {
        "rf24": PKG + ".rf24", "rf24_lite": PKG + ".rf24_lite", "fake_ble": PKG + ".fake_ble",
        "rf24_mesh": PKG + ".rf24_mesh", "rf24_network": PKG + ".rf24_network",
        "mixins": PKG + ".network.mixins", "structs": PKG + ".network.structs",
        "constants": PKG + ".network.constants", "cpy_spidev": PKG + ".wrapper.cpy_spidev",
        "wrapper": PKG + ".wrapper",
    }

    def full_name(self, short):
        if short in self.SHORT:
            return self.SHORT[short]
        return short
