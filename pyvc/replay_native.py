"""Native replay of a counter-model on the REAL code (runs under /venv/bin/python).

Builds the real objects from the schema + model values (object.__new__ + field assignment),
wires self._spi / self._ce_pin to the executable A-HW contract (spec/hw.py), calls the real
function from --repo, and evaluates the executable contract (reference function(s) + view,
ensures predicates).  Prints one JSON line: {"reproduced": bool, "failed": [...], ...}."""
import copy
import importlib
import json
import sys
import traceback


def get_target(key):
    from pyvc.schema import SHORT
    modname, _, qual = key.partition(":")
    m = importlib.import_module(SHORT.get(modname, modname))
    parts = qual.split(".")
    if len(parts) == 1:
        return getattr(m, parts[0])
    cls = getattr(m, parts[0])
    if len(parts) == 3 and parts[2] in ("getter", "setter"):
        p = None
        for k in cls.__mro__:
            if parts[1] in k.__dict__:
                p = k.__dict__[parts[1]]
                break
        return p.fget if parts[2] == "getter" else p.fset
    for k in cls.__mro__:
        if parts[1] in k.__dict__:
            return k.__dict__[parts[1]]
    raise AttributeError(key)


def get_spec(key):
    modname, _, name = key.partition(":")
    return getattr(importlib.import_module(modname), name)


def call_by_name(fn, env):
    import inspect
    params = list(inspect.signature(fn).parameters)
    return fn(*[env[p] for p in params])


def reachable(objs):
    seen = {}
    stack = list(objs)
    while stack:
        o = stack.pop()
        if id(o) in seen or isinstance(o, (int, str, bytes, bool, float, type(None))):
            continue
        seen[id(o)] = o
        if isinstance(o, (list, tuple, set)):
            stack.extend(o)
        elif isinstance(o, dict):
            stack.extend(o.keys())
            stack.extend(o.values())
        elif hasattr(o, "__dict__"):
            stack.extend(vars(o).values())
    return list(seen.values())


def exc_name(e):
    n = type(e).__name__
    if n == "error" and type(e).__module__ in ("struct", "_struct"):
        return "struct.error"
    return n


def norm(v):
    """comparable form of a value (bytearray == bytes by content)"""
    if isinstance(v, (bytes, bytearray)):
        return ("bytes", bytes(v))
    if isinstance(v, (list, tuple)):
        return tuple(norm(x) for x in v)
    if isinstance(v, bool):
        return int(v)
    return v


def run_contract(c, values, info):
    from pyvc import schema as S, specrt
    import time as _time
    clock = [values.get("clock[%d]" % k) for k in range(4096) if ("clock[%d]" % k) in values]
    state = {"k": 0, "last": 0}

    def mono_ns():
        k = state["k"]
        state["k"] += 1
        v = clock[k] if k < len(clock) else state["last"] + 1000
        state["last"] = max(state["last"], v)
        return state["last"]
    _time.monotonic_ns = mono_ns
    _time.monotonic = lambda: mono_ns() / 1e9
    _time.sleep = lambda d: (_ for _ in ()).throw(ValueError("sleep length must be non-negative")) if d < 0 else None
    orc = [values.get("oracle[%d]" % k) for k in range(4096) if ("oracle[%d]" % k) in values]
    specrt.set_oracle(orc)

    shared = {}
    vals = {k: S.build_native(node, k, values, shared) for k, node in c.state.items()}
    order = [k for k in c.state.keys() if k not in getattr(c, 'ghost', [])]
    failed = []
    detail = {}
    for sk in getattr(c, "setup", []):
        call_by_name(get_spec(sk), vals)
    for r in c.requires:
        if not call_by_name(get_spec(r), vals):
            return {"reproduced": False, "error": "model does not satisfy requires %s natively" % r}
    olds = copy.deepcopy(vals)
    specrt.mark_entry(reachable(list(vals.values())))
    target = get_target(c.target)
    exc = None
    result = None
    try:
        kws = dict(c.call_kwargs)
        for k in getattr(c, "kw", []):
            kws[k] = vals[k]
        result = target(*[vals[k] for k in order if k not in getattr(c, "kw", [])], **kws)
    except Exception as e:   # noqa
        exc = exc_name(e)
        detail["traceback"] = traceback.format_exc()[-1500:]
    detail["body_outcome"] = "ret" if exc is None else "raise " + exc
    if exc == "TurnsExceeded":
        # the replayed obligation is a termination measure (<loop>.bounded_turns): the REAL call, started in the
        # counter-model's state with the model's oracle answers, was still polling after WATCHDOG_FRAMES SPI frames
        return {"reproduced": True, "failed": [WATCHDOG_CLAUSE], "detail": {"body_outcome": "did not return within %d SPI frames" % WATCHDOG_FRAMES}}
    refs = c.refines if isinstance(c.refines, (list, tuple)) else ([c.refines] if c.refines else [])
    if refs:
        any_ok = False
        alt_fail = []
        for rk in refs:
            specrt.set_oracle(orc)
            rvals = copy.deepcopy(olds)
            exc2 = None
            r2 = None
            try:
                r2 = get_spec(rk)(*[rvals[k] for k in order])
            except Exception as e:  # noqa
                exc2 = exc_name(e)
            bad = []
            if exc != exc2:
                bad.append("outcome (body %s, ref %s)" % (detail["body_outcome"], "ret" if exc2 is None else "raise " + exc2))
            else:
                same_obj = any(result is vals[k] and r2 is rvals[k] for k in vals)
                if exc is None and not same_obj and norm(result) != norm(r2):
                    bad.append("result (body %r, ref %r)" % (result, r2))
                if c.view:
                    vf = get_spec(c.view)
                    va, vb = vf(vals[order[0]]), vf(rvals[order[0]])
                    for (n, x), (_, y) in zip(va, vb):
                        if norm(x) != norm(y):
                            bad.append("state[%s] (body %r, ref %r)" % (n, x, y))
            if not bad:
                any_ok = True
            alt_fail.append(bad)
        if not any_ok:
            failed.append("refines")
            detail["refines"] = alt_fail
    env = dict(vals)
    for k, v in olds.items():
        env["old_" + k] = v
    env["result"] = result
    env["exc"] = exc
    for n, pk in c.ensures:
        try:
            ok = call_by_name(get_spec(pk), env)
        except Exception as e:  # noqa
            ok = False
            detail["ensures_error_" + n] = repr(e)
        if not ok:
            failed.append(n)
    if not refs and exc is not None and c.raises is not None and exc not in c.raises:
        failed.append("noexc")
    return {"reproduced": bool(failed), "failed": failed, "detail": detail}


WATCHDOG_FRAMES = 20000
WATCHDOG_CLAUSE = ""


class TurnsExceeded(Exception):
    pass


def install_watchdog(clause):
    """count the SPI frames of the executable radio contract; a call that is still going after WATCHDOG_FRAMES is
    reported as not returning (used only when replaying a `bounded_turns` obligation)"""
    global WATCHDOG_CLAUSE
    WATCHDOG_CLAUSE = clause
    from spec import hw as _hw
    real = _hw.Radio.xfer
    count = [0]

    def xfer(self, mosi):
        count[0] += 1
        if count[0] > WATCHDOG_FRAMES:
            raise TurnsExceeded()
        return real(self, mosi)
    _hw.Radio.xfer = xfer


def run_lemma(lm, values):
    from pyvc import schema as S
    shared = {}
    env = {k: S.build_native(node, k, values, shared) for k, node in lm.state.items()}
    for r in lm.requires:
        if not call_by_name(get_spec(r), env):
            return {"reproduced": False, "error": "model does not satisfy requires natively"}
    try:
        ok = call_by_name(get_spec(lm.pred), env)
    except Exception as e:  # noqa
        return {"reproduced": True, "failed": [lm.name], "detail": {"raised": repr(e)}}
    return {"reproduced": not ok, "failed": [] if ok else [lm.name], "detail": {"inputs": {k: repr(v)[:200] for k, v in env.items()}}}


def main():
    path = sys.argv[1]
    repo = "/repo"
    if "--repo" in sys.argv:
        repo = sys.argv[sys.argv.index("--repo") + 1]
    sys.path.insert(0, repo)
    try:
        payload = json.load(open(path))
        mod = importlib.import_module(payload["module"])
        item = None
        for c in list(getattr(mod, "CONTRACTS", [])) + list(getattr(mod, "LEMMAS", [])):
            if c.name == payload["item"]:
                item = c
        if item is None:
            raise RuntimeError("item not found: " + payload["item"])
        import circuitpython_nrf24l01
        where = circuitpython_nrf24l01.__file__
        from pyvc.cdef import Lemma
        want0 = payload["obligation"][len(payload["item"]) + 1:] if payload["obligation"].startswith(payload["item"] + ".") else ""
        if want0.endswith(".bounded_turns"):
            install_watchdog(want0)
        if isinstance(item, Lemma):
            out = run_lemma(item, payload.get("values") or {})
        else:
            out = run_contract(item, payload.get("values") or {}, payload.get("info"))
        out["code_under_test"] = where
        # the obligation that the solver refuted should be among the natively failing clauses
        want = payload["obligation"][len(payload["item"]) + 1:] if payload["obligation"].startswith(payload["item"] + ".") else ""
        out["obligation_clause"] = want
    except Exception:
        out = {"reproduced": False, "error": traceback.format_exc()[-3000:]}
    print(json.dumps(out, default=str))


if __name__ == "__main__":
    main()
