#!/bin/sh
# re-run every stored seeded change against the check of its property (regression after engine/spec changes):
# expects exit 1 (VIOLATION) for each; applies to /repo and undoes it
cd /verif
for d in seeded/*/; do
  id=$(basename $d)
  prop=$(python3 -c "import json;print(json.load(open('$d/meta.json'))['breaks_property'])")
  git -C /repo apply /verif/$d/patch.diff || { echo "$id $prop NOAPPLY"; continue; }
  s=$(date +%s)
  out=$(bin/check $prop --no-evidence 2>&1); rc=$?
  e=$(date +%s)
  git -C /repo checkout -- .
  echo "$id $prop rc=$rc $((e-s))s $(echo "$out" | grep -c VIOLATION) violation lines"
done
