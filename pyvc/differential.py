"""Engine-vs-CPython differential (DESIGN 2.8): for contracts with a reference function and a
view, solver-chosen pre-states that satisfy `requires` are (a) pushed through the symbolic
executor as fully CONCRETE values (no solver involved) and (b) executed natively on the real code;
result, raised exception type and the whole abstract view must agree.  A disagreement means the
VC generator's model of Python differs from CPython on that input -> checker fault.

usage: python3-vt -m pyvc.differential <ID> [--n 6] [--repo DIR]"""
import importlib
import json
import os
import subprocess
import sys
import tempfile

import z3

VERIF = os.path.dirname(os.path.dirname(os.path.abspath(__file__)))
sys.path.insert(0, VERIF)


def models_for(prog, c, n):
    """n diverse concrete pre-states satisfying c.requires (from the solver)"""
    from pyvc.core import Ctx, PathEnd
    from pyvc.interp import Interp
    from pyvc.driver import build_sym, call_by_name
    from pyvc import ops
    out = []
    work = [[]]
    while work and len(out) < n:
        prefix = work.pop()
        ctx = Ctx(prog, prefix, timeout_ms=10000)
        it = Interp(prog, ctx)
        try:
            shared = {}
            vals = {k: build_sym(it, node, k, shared) for k, node in c.state.items()}
            for sk in c.setup:
                call_by_name(it, prog.func(sk), dict(vals))
            for r in c.requires:
                ctx.assume(ops.truthy(it, call_by_name(it, prog.func(r), dict(vals))))
        except PathEnd:
            work.extend(ctx.alts)
            continue
        except Exception:
            work.extend(ctx.alts)
            continue
        work.extend(ctx.alts)
        k = 0
        while k < max(1, n // 2) and len(out) < n:
            ctx.solver.set("random_seed", 7 * len(out) + k + 1)
            if ctx._check() != z3.sat:
                break
            m = ctx.solver.model()
            vals_c = ctx._extract(m)
            out.append(vals_c)
            # block on the scalar arguments so that the next model differs
            block = []
            for label, sym_c in ctx.inputs.items():
                if ctx.input_meta[label] == "int" and not label.startswith("$hw") and "[" not in label:
                    block.append(sym_c != m.eval(sym_c, model_completion=True))
            if not block:
                break
            ctx.solver.add(z3.Or(*block))
            k += 1
    return out


def engine_concrete(prog, c, values):
    from pyvc.core import Ctx
    from pyvc.interp import Interp
    from pyvc.driver import contract_driver
    from pyvc.sym import Unsupported
    ctx = Ctx(prog, [], timeout_ms=5000)
    ctx.concrete = dict(values)
    it = Interp(prog, ctx)
    drv = contract_driver(prog, c)
    try:
        drv(it)
    except Unsupported as e:
        return {"unsupported": str(e)}
    cap = ctx.ghost.get("capture")
    if cap is None:
        return {"unsupported": "no capture (requires false concretely?)"}
    failed = sorted(set(o.name[len(c.name) + 1:] for o in ctx.obligations if o.status != "unsat"))
    return {"exc": cap["exc"], "result": _plain(it, cap["result"]),
            "view": [(n, _plain(it, v)) for n, v in cap.get("view", [])], "failed": failed}


def _plain(it, v):
    from pyvc.core import Ref, HObj, HList, HByteArray, VBytes
    from pyvc import ops
    if isinstance(v, bool):
        return int(v)
    if isinstance(v, int) or v is None or isinstance(v, str):
        return v
    t = ops.bytes_term(it, v)
    if t is not None:
        if t.cells is None or not all(isinstance(c, int) for c in t.cells):
            return "<symbolic bytes>"
        return ["bytes"] + [int(c) for c in t.cells]
    if isinstance(v, tuple):
        return [_plain(it, x) for x in v]
    if isinstance(v, Ref):
        o = it.ctx.obj(v)
        if isinstance(o, HList):
            return [_plain(it, x) for x in o.items]
        return "<object>"
    if isinstance(v, float):
        return v
    return "<%s>" % type(v).__name__


NATIVE = r'''
import copy, importlib, json, sys
sys.path.insert(0, sys.argv[3]); sys.path.insert(0, %r)
from pyvc import replay_native as rn, schema as S, specrt
import time as _t
_t.sleep = lambda d: None
job = json.load(open(sys.argv[1]))
mod = importlib.import_module(job["module"])
c = [c for c in mod.CONTRACTS if c.name == job["item"]][0]
def plain(v):
    if isinstance(v, bool): return int(v)
    if isinstance(v, (bytes, bytearray)): return ["bytes"] + list(v)
    if isinstance(v, (list, tuple)): return [plain(x) for x in v]
    if v is None or isinstance(v, (int, str, float)): return v
    return "<object>"
out = []
for values in job["models"]:
    shared = {}
    vals = {k: S.build_native(node, k, values, shared) for k, node in c.state.items()}
    for sk in getattr(c, "setup", []): rn.call_by_name(rn.get_spec(sk), vals)
    order = [k for k in c.state if k not in getattr(c, "ghost", [])]
    exc = None; res = None
    try:
        kws = dict(c.call_kwargs)
        for k in getattr(c, "kw", []): kws[k] = vals[k]
        res = rn.get_target(c.target)(*[vals[k] for k in order if k not in getattr(c, "kw", [])], **kws)
    except Exception as e:
        exc = rn.exc_name(e)
    view = []
    if c.view:
        try: view = [(n, plain(v)) for n, v in rn.get_spec(c.view)(vals[order[0]])]
        except Exception as e: view = [("view_error", repr(e))]
    try:
        verdict = rn.run_contract(c, values, None)
        failed = sorted(verdict.get("failed", [])) if "error" not in verdict else ["<native error>"]
    except Exception as e:
        failed = ["<native crash>"]
    out.append({"exc": exc, "result": plain(res), "view": view, "failed": failed})
json.dump(out, open(sys.argv[2], "w"))
''' % VERIF


def main():
    prop = sys.argv[1]
    n = int(sys.argv[sys.argv.index("--n") + 1]) if "--n" in sys.argv else 6
    repo = sys.argv[sys.argv.index("--repo") + 1] if "--repo" in sys.argv else "/repo"
    from spec import registry
    from pyvc.frontend import Program
    from pyvc.cdef import Contract
    prog = Program(repo, VERIF)
    runs = disagreements = skipped = 0
    details = []
    for modname in registry.PROPERTIES[prop]["modules"]:
        mod = importlib.import_module(modname)
        for c in getattr(mod, "CONTRACTS", []):
            if prop not in c.props or not c.replayable or c.loops:
                continue
            try:
                models = models_for(prog, c, n)
            except Exception as e:  # noqa
                skipped += 1
                continue
            if not models:
                skipped += 1
                continue
            eng = [engine_concrete(prog, c, m) for m in models]
            with tempfile.TemporaryDirectory() as td:
                jf, of, sf = os.path.join(td, "job.json"), os.path.join(td, "out.json"), os.path.join(td, "n.py")
                json.dump({"module": modname, "item": c.name, "models": models}, open(jf, "w"), default=str)
                open(sf, "w").write(NATIVE)
                env = dict(os.environ)
                env["PYTHONPATH"] = VERIF
                p = subprocess.run(["/venv/bin/python", sf, jf, of, repo], capture_output=True, text=True, env=env, cwd=VERIF, timeout=300)
                if not os.path.exists(of):
                    details.append({"contract": c.name, "native_error": p.stderr[-500:]})
                    skipped += 1
                    continue
                nat = json.load(open(of))
            for m, e, nv in zip(models, eng, nat):
                if "unsupported" in e:
                    skipped += 1
                    continue
                runs += 1
                ev = json.loads(json.dumps(e, default=str))
                same = ev["exc"] == nv["exc"] and (ev["exc"] is not None or ev["result"] == nv["result"] or "<object>" in (str(ev["result"]), str(nv["result"])))
                ve = {k: v for k, v in ev["view"]}
                vn = {k: v for k, v in nv["view"]}
                diff = [k for k in ve if k in vn and ve[k] != vn[k] and "<object>" not in str(ve[k]) + str(vn[k])]
                # the contract's verdict must agree too (native 'refines' = engine outcome/result/state)
                ef = set("refines" if x in ("outcome", "result", "state", "refines_one_of") else x for x in ev.get("failed", []))
                nf = set(nv.get("failed", []))
                if ef != nf:
                    diff = diff + ["verdict: engine %s native %s" % (sorted(ef), sorted(nf))]
                if not same or diff:
                    disagreements += 1
                    if len(details) < 10:
                        details.append({"contract": c.name, "engine": {"exc": ev["exc"], "result": ev["result"]},
                                        "native": {"exc": nv["exc"], "result": nv["result"]}, "view_diff": diff[:6],
                                        "inputs": dict([(k, v) for k, v in m.items() if not isinstance(v, list) and v not in (0, False)][:40])})
    print(json.dumps({"property": prop, "differential_runs": runs, "disagreements": disagreements, "skipped": skipped, "details": details}, default=str))
    return 1 if disagreements else 0


if __name__ == "__main__":
    sys.exit(main())
