"""A-HW: the assumed contract of the nRF24L01+ behind `self._spi` / `self._ce_pin` (DESIGN 3.3).

Written from the nRF24L01+ Product Specification v1.0 (ch. 8.3.1 Table 20 SPI commands, ch. 9
Table 28 register map, ch. 7 Enhanced ShockBurst), in the verified Python subset: the engine
executes it symbolically whenever the driver performs an SPI transaction, and the native replay
uses the very same classes as the SPI device (the stub *plays the assumed contract*).

State of `Radio`
  reg[0x00..0x1D]   one-byte registers (STATUS latches live in reg[7] bits 4..6)
  addr0, addr1, txaddr   5-byte address registers, LSByte first
  rx_n, rx_pipe[3], rx_len[3], rx_data[3]   RX FIFO (head = index 0)
  tx_n, tx_len[3], tx_data[3], tx_noack[3], tx_ackpipe[3]   TX FIFO (ackpipe -1 = ordinary payload)
  ce                CE line
  bad_write         ghost: some W_REGISTER carried a reserved/out-of-range value
  frames            ghost: number of SPI frames so far
  ce_log            ghost: bit 1 set once PRIM_RX was changed by a CONFIG write while CE was high (C08)
"""
from pyvc.specrt import ite, implies, oracle_int

# write masks per Table 28 (bits that exist and are writable)
WMASK = (0x7F, 0x3F, 0x3F, 0x03, 0xFF, 0x7F, 0xBF, 0x70, 0x00, 0x00,
         0xFF, 0xFF, 0xFF, 0xFF, 0xFF, 0xFF, 0xFF,
         0x3F, 0x3F, 0x3F, 0x3F, 0x3F, 0x3F, 0x00,
         0x00, 0x00, 0x00, 0x00, 0x3F, 0x07)


class Pin:
    """digitalio.DigitalInOut driving the radio's CE line"""

    def switch_to_output(self, value=False):
        self.hw.set_ce(bool(value))

    @property
    def value(self):
        return self.hw.ce

    @value.setter
    def value(self, val):
        self.hw.set_ce(bool(val))


class SpiStub:
    """busio.SPI wrapped by SPIDevice: one `with` block = one CSN frame"""

    def __enter__(self):
        return self

    def __exit__(self, *exc):
        return False

    # busio.SPI protocol used by the real adafruit_bus_device.SPIDevice when a constructor is run
    # NATIVELY (replay / differential); the engine models SPIDevice(spi, ...) as `spi` itself
    def try_lock(self):
        return True

    def unlock(self):
        return None

    def configure(self, baudrate=0, polarity=0, phase=0, bits=8):
        return None

    def write(self, buf, start=0, end=None):
        """SPIDevice's extra clocks after CSN went high: ignored by the radio (A-HW)"""
        return None

    def write_readinto(self, out_buf, in_buf, out_start=0, out_end=None, in_start=0, in_end=None):
        n = out_end if out_end is not None else len(out_buf)
        m = in_end if in_end is not None else len(in_buf)
        if n - out_start != m - in_start:
            raise ValueError("buffer slices must be of equal length")
        miso = self.hw.xfer(bytes(out_buf[out_start:n]))
        in_buf[in_start:m] = miso


class SpiDevStub:
    """spidev.SpiDev as used by wrapper/cpy_spidev.py (assumed): xfer2 clocks one CSN frame"""

    def open(self, bus, dev):
        self.opened = self.opened + 1

    def close(self):
        self.opened = self.opened - 1

    def xfer2(self, data, speed_hz=0):
        return self.hw.xfer(bytes(data))


class Radio:
    def status(self):
        pipe = ite(self.rx_n > 0, self.rx_pipe[0], 7)
        full = ite(self.tx_n >= 3, 1, 0)
        return (self.reg[7] & 0x70) | (pipe << 1) | full

    def fifo_status(self):
        v = ite(self.rx_n == 0, 1, 0) | ite(self.rx_n >= 3, 2, 0)
        v = v | ite(self.tx_n == 0, 0x10, 0) | ite(self.tx_n >= 3, 0x20, 0)
        return v | (self.reg[0x17] & 0x40)

    def set_ce(self, val):
        self.ce = val

    # ---------------------------------------------------------------- PTX engine (A-HW rule 3)
    def env_step(self):
        """what the radio may have done since the previous SPI frame (only when env_on).

        A started transmission attempt resolves within `budget` further frames (A-HW-LIVE) to
        TX_DS (payload popped, optional ACK payload received) or MAX_RT (payload kept), as an
        oracle decides; it is forced to TX_DS when no acknowledgement is expected.  The step
        never touches a configuration or address register, nor CE (frame axiom)."""
        if not self.env_on:
            return
        if self.inflight:
            wait = oracle_int(0, 1)
            if wait == 1 and self.budget > 0:
                self.budget = self.budget - 1
                return
            self._resolve()
            return
        startable = (self.ce and (self.reg[0] & 3) == 2 and self.tx_n > 0 and (self.reg[7] & 0x10) == 0
                     and self.tx_ackpipe[0] < 0)
        if startable:
            self.inflight = True
            self.att_n = self.att_n + 1
            self.att_txn = self.tx_n
            self.att_len = self.tx_len[0]
            self.att_data = self.tx_data[0]
            self.reg[8] = self.reg[8] & 0xF0      # ARC_CNT restarts with every new packet

    def _resolve(self):
        self.inflight = False
        no_ack_expected = (self.reg[1] & 1) == 0 or (self.tx_noack[0] and (self.reg[0x1D] & 1) != 0)
        lost = oracle_int(0, 1)
        if lost == 1 and not no_ack_expected:
            # every (re)transmission went unacknowledged
            self.reg[7] = self.reg[7] | 0x10
            self.reg[8] = (min(15, (self.reg[8] >> 4) + 1) << 4) | (self.reg[4] & 0x0F)
            self.n_rt = self.n_rt + 1
            return
        self.reg[7] = self.reg[7] | 0x20
        used = oracle_int(0, 15)
        self.reg[8] = (self.reg[8] & 0xF0) | ite(no_ack_expected, 0, min(used, self.reg[4] & 0x0F))
        self.n_ds = self.n_ds + 1
        # payload leaves the TX FIFO
        self.tx_len[0] = self.tx_len[1]
        self.tx_data[0] = self.tx_data[1]
        self.tx_noack[0] = self.tx_noack[1]
        self.tx_ackpipe[0] = self.tx_ackpipe[1]
        self.tx_len[1] = self.tx_len[2]
        self.tx_data[1] = self.tx_data[2]
        self.tx_noack[1] = self.tx_noack[2]
        self.tx_ackpipe[1] = self.tx_ackpipe[2]
        self.tx_n = self.tx_n - 1
        # the peer may have attached an ACK payload (needs EN_ACK_PAY + EN_DPL and DPL on pipe 0)
        ackpl_on = (self.reg[0x1D] & 6) == 6 and (self.reg[0x1C] & 1) != 0
        if ackpl_on and not no_ack_expected and self.rx_n < 3:
            got = oracle_int(0, 1)
            if got == 1:
                i = self.rx_n
                ln = oracle_int(1, 32)
                self.rx_pipe[i] = 0
                self.rx_len[i] = ln
                self.rx_data[i] = self.ackpl
                self.rx_n = self.rx_n + 1
                self.reg[7] = self.reg[7] | 0x40
                self.ack_rx = self.ack_rx + 1

    def xfer(self, mosi):
        """one CSN frame: returns MISO (same length); STATUS is shifted out first"""
        n = len(mosi)
        self.env_step()
        self.frames = self.frames + 1
        if n == 0:
            return bytes(0)
        head = bytes([self.status()])
        cmd = mosi[0]
        rest = bytes(n - 1)
        if cmd < 0x20:
            rest = self._r_register(cmd, n)
        elif cmd < 0x40:
            self._w_register(cmd & 0x1F, mosi, n)
        elif cmd == 0x60:  # R_RX_PL_WID
            rest = (bytes([ite(self.rx_n > 0, self.rx_len[0], 0)]) + bytes(n))[: n - 1]
        elif cmd == 0x61:  # R_RX_PAYLOAD
            rest = self._r_rx_payload(n)
        elif cmd == 0xA0 or cmd == 0xB0:  # W_TX_PAYLOAD / W_TX_PAYLOAD_NOACK
            self._w_tx_payload(mosi, n, cmd == 0xB0, -1)
        elif 0xA8 <= cmd <= 0xAD:  # W_ACK_PAYLOAD
            self._w_tx_payload(mosi, n, False, cmd & 7)
        elif cmd == 0xE1:  # FLUSH_TX
            self.tx_n = 0
        elif cmd == 0xE2:  # FLUSH_RX
            self.rx_n = 0
        elif cmd == 0xE3:  # REUSE_TX_PL
            self.reg[0x17] = self.reg[0x17] | 0x40
        elif cmd == 0x50:  # ACTIVATE (no effect on the plus variant)
            self.activates = self.activates + 1
        elif cmd == 0xFF:  # NOP
            pass
        else:
            self.bad_write = True  # not a command of Table 20
        return head + rest

    def _r_register(self, r, n):
        if r == 0x0A or r == 0x0B or r == 0x10:
            src = self.addr0
            if r == 0x0B:
                src = self.addr1
            elif r == 0x10:
                src = self.txaddr
            return (bytes(src) + bytes(n))[: n - 1]
        val = 0
        if r == 7:
            val = self.status()
        elif r == 0x17:
            val = self.fifo_status()
        elif r < 0x1E:
            val = self.reg[r]
        return (bytes([val]) + bytes(n))[: n - 1]

    def _w_register(self, r, mosi, n):
        if n < 2:
            return
        p = mosi + bytes(8)
        if r == 0x0A or r == 0x0B or r == 0x10:
            dst = self.addr0
            if r == 0x0B:
                dst = self.addr1
            elif r == 0x10:
                dst = self.txaddr
            self.bad_write = self.bad_write or n > 6
            for k in range(5):
                dst[k] = ite(k + 1 < n, p[k + 1], dst[k])
            return
        val = p[1]
        if r >= 0x1E:
            self.bad_write = True
            return
        mask = WMASK[r]
        self.bad_write = self.bad_write or (val & ~mask & 0xFF) != 0
        self.bad_write = self.bad_write or (r == 5 and val > 125)
        self.bad_write = self.bad_write or (0x11 <= r and r <= 0x16 and val > 32)
        if r == 7:
            self.reg[7] = self.reg[7] & ~(val & 0x70) & 0xFF
        elif r == 8 or r == 9 or r == 0x17 or (0x18 <= r <= 0x1B):
            pass  # read-only / not present
        else:
            if r == 0:
                # ghost (C08): the primary role (PRIM_RX) was changed while CE was high
                self.ce_log = ite(self.ce and ((self.reg[0] ^ val) & 1) != 0, self.ce_log | 2, self.ce_log)
            self.reg[r] = val & mask
            if r == 5:
                self.reg[8] = self.reg[8] & 0x0F  # PLOS_CNT is reset by writing RF_CH

    def _r_rx_payload(self, n):
        has = self.rx_n > 0
        d = self.rx_data[0]
        ln = ite(has, self.rx_len[0], 0)
        cells = []
        for k in range(32):
            cells.append(ite(k < ln, d[k], 0))
        rest = (bytes(cells) + bytes(n))[: n - 1]
        # the payload is deleted from the FIFO after it is read out
        self.rx_pipe[0] = ite(has, self.rx_pipe[1], self.rx_pipe[0])
        self.rx_len[0] = ite(has, self.rx_len[1], self.rx_len[0])
        self.rx_data[0] = ite(has, self.rx_data[1], self.rx_data[0])
        self.rx_pipe[1] = ite(has, self.rx_pipe[2], self.rx_pipe[1])
        self.rx_len[1] = ite(has, self.rx_len[2], self.rx_len[1])
        self.rx_data[1] = ite(has, self.rx_data[2], self.rx_data[1])
        self.rx_n = ite(has, self.rx_n - 1, self.rx_n)
        return rest

    def _w_tx_payload(self, mosi, n, noack, ackpipe):
        ln = n - 1
        self.bad_write = self.bad_write or ln > 32
        ln = min(ln, 32)
        p = mosi + bytes(40)
        cells = []
        for k in range(32):
            cells.append(ite(k < ln, p[k + 1], 0))
        d = bytes(cells)
        room = self.tx_n < 3
        for i in range(3):
            here = room and self.tx_n == i
            self.tx_data[i] = ite(here, d, self.tx_data[i])
            self.tx_len[i] = ite(here, ln, self.tx_len[i])
            self.tx_noack[i] = ite(here, noack, self.tx_noack[i])
            self.tx_ackpipe[i] = ite(here, ackpipe, self.tx_ackpipe[i])
        self.loaded = ite(room, self.loaded + 1, self.loaded)
        self.tx_n = ite(room, self.tx_n + 1, self.tx_n)
