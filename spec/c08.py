"""C08 -- RX/TX switching preserves the user's pipe-0 address and ACK reception.

`_pipe0_read_addr` is, by the C03 reference functions of open_rx_pipe/close_rx_pipe, exactly
"the address the user last opened pipe 0 with, or None" (ghost user_p0 of the design).  The
invariant J adds what RX entry relies on; every function of the alphabet preserves Inv and J from
any Inv/J state, hence every call sequence does."""
from pyvc.cdef import Contract
from pyvc.schema import Int, Bool, Const, Bytes, ByteArray, OneOf
from pyvc.specrt import implies, ite
from spec.rf24_state import rf24_schema, inv, view_cfg
from spec.c03 import (PRIMS, ADDR_ARG, BITS_ARG, ref_open_rx_pipe, ref_open_tx_pipe, ref_close_rx_pipe,
                      ref_auto_ack_set, ref_set_auto_ack, ref_power_set)


def j_inv(self):
    """user opened pipe 0 => pipe 0 enabled; receiving => CE high"""
    hw = self._spi.hw
    return (implies(self._pipe0_read_addr is not None, (hw.reg[2] & 1) != 0)
            and implies((hw.reg[0] & 3) == 3, hw.ce)
            and hw.ce_log == 0)


def ref_listen_get(self):
    r = self._spi.hw.reg[0]
    return (r & 2) != 0 and (r & 1) != 0


def ref_listen_set(self, is_rx):
    """documented transition (basic_api.rst `listen`, datasheet app. B): CE low, power up and set
    PRIM_RX, then: RX -> CE high, pipe 0 back on the user's address or closed if the user has
    none; TX -> flush TX FIFO when ACK payloads are enabled, open pipe 0 when it auto-acks"""
    hw = self._spi.hw
    rx = bool(is_rx)
    hw.set_ce(False)
    hw.reg[0] = (hw.reg[0] & 0xFC) | 2 | ite(rx, 1, 0)
    self._config = hw.reg[0]
    if rx:
        hw.set_ce(True)
        p0 = self._pipe0_read_addr
        if p0 is not None:
            n = len(p0)
            q = p0 + bytes(5)
            for k in range(5):
                hw.addr0[k] = ite(k < n, q[k], hw.addr0[k])
                self._pipes[0][k] = hw.addr0[k]
        else:
            hw.reg[2] = hw.reg[2] & 0x3E
            self._open_pipes = hw.reg[2]
    else:
        ackpl = (hw.reg[0x1D] & 6) == 6 and (hw.reg[1] & hw.reg[0x1C] & 1) != 0
        hw.tx_n = ite(ackpl, 0, hw.tx_n)
        hw.reg[2] = ite((hw.reg[1] & 1) != 0, hw.reg[2] | 1, hw.reg[2])
        self._open_pipes = hw.reg[2]


def ens_rx_entry(self, is_rx):
    """whenever the radio enters RX mode pipe 0 listens on the user's address, or is closed"""
    hw = self._spi.hw
    p0 = self._pipe0_read_addr
    if not bool(is_rx):
        return True
    if p0 is None:
        return (hw.reg[2] & 1) == 0
    n = len(p0)
    return (hw.reg[2] & 1) != 0 and bytes(hw.addr0)[:n] == bytes(p0) and (hw.reg[0] & 3) == 3


def ens_ce(self, old_self, is_rx):
    """CE low while the role changes (never a PRIM_RX change with CE high), high in RX"""
    hw = self._spi.hw
    return hw.ce == bool(is_rx) and hw.ce_log == 0


def req_tx_mode_aa0(self):
    hw = self._spi.hw
    return (hw.reg[0] & 1) == 0 and (hw.reg[1] & 1) != 0


def ens_ack_ready(self, address, exc):
    """after open_tx_pipe() in TX mode with auto-ack on pipe 0: pipe 0 open on the TX address"""
    hw = self._spi.hw
    n = len(address)
    return implies(exc is None,
                   (hw.reg[2] & 1) != 0 and bytes(hw.addr0)[:n] == bytes(address)
                   and bytes(hw.txaddr)[:n] == bytes(address))


R3 = "spec.c03:"
R8 = "spec.c08:"
ST = "spec.rf24_state:"


def C(name, target, args, ref, requires=(), ensures=(), extra_policy=None):
    state = {"self": rf24_schema()}
    state.update(args)
    pol = dict(PRIMS)
    pol.update(extra_policy or {})
    return Contract("C08." + name, target, state, requires=[ST + "inv", R8 + "j_inv"] + list(requires), refines=ref,
                    view=ST + "view_cfg", ensures=[("inv", ST + "post_inv"), ("J", R8 + "j_post")] + list(ensures),
                    policy=pol, props=["C08", "C09", "C01"] + (["C04", "C07", "C05", "C14"] if name in ("listen.set", "listen.get", "open_rx_pipe", "open_tx_pipe") else []))


def j_post(self):
    return j_inv(self)


LISTEN_POL = {"rf24:RF24.address": "inline", "rf24:RF24.flush_tx": "inline"}
CONTRACTS = [
    C("listen.get", "rf24:RF24.listen.getter", {}, R8 + "ref_listen_get", extra_policy={"rf24:RF24.power.getter": "ref:spec.c03:ref_power_get"}),
    C("listen.set", "rf24:RF24.listen.setter", {"is_rx": OneOf(Bool(), Int())}, R8 + "ref_listen_set",
      ensures=[("rx_entry", R8 + "ens_rx_entry"), ("ce", R8 + "ens_ce")], extra_policy=LISTEN_POL),
    C("open_tx_pipe", "rf24:RF24.open_tx_pipe", {"address": ADDR_ARG}, [R3 + "ref_open_tx_pipe", R3 + "ref_open_tx_pipe_v"]),
    C("open_tx_pipe.ack", "rf24:RF24.open_tx_pipe", {"address": OneOf(Bytes(1, 5), ByteArray(1, 5))},
      [R3 + "ref_open_tx_pipe"], requires=[R8 + "req_tx_mode_aa0"], ensures=[("ack_ready", R8 + "ens_ack_ready")]),
    C("open_rx_pipe", "rf24:RF24.open_rx_pipe", {"pipe_number": Int(), "address": ADDR_ARG},
      [R3 + "ref_open_rx_pipe", R3 + "ref_open_rx_pipe_v"]),
    C("close_rx_pipe", "rf24:RF24.close_rx_pipe", {"pipe_number": Int()}, R3 + "ref_close_rx_pipe"),
    C("auto_ack.set", "rf24:RF24.auto_ack.setter", {"enable": BITS_ARG}, R3 + "ref_auto_ack_set"),
    C("set_auto_ack", "rf24:RF24.set_auto_ack", {"enable": OneOf(Bool(), Int()), "pipe_number": OneOf(Const(None), Int())},
      R3 + "ref_set_auto_ack", extra_policy={"rf24:RF24.auto_ack.setter": "ref:" + R3 + "ref_auto_ack_set"}),
    C("address", "rf24:RF24.address", {"index": Int()}, R3 + "ref_address"),
]


# ---- C03's "carrier-wave test" (here because it is built from the power and listen transitions)

def ref_start_carrier_wave(self):
    """nRF24L01+ (A-HW; the non-plus branch is documented to disturb the configuration until the
    next `with`, advanced_api.rst): power-cycle with CE low, TX mode, CONT_WAVE | PLL_LOCK set in
    RF_SETUP and nothing else, CE high"""
    hw = self._spi.hw
    ref_power_set(self, False)
    hw.set_ce(False)
    ref_power_set(self, True)
    ref_listen_set(self, False)
    hw.reg[6] = hw.reg[6] | 0x90
    self._rf_setup = hw.reg[6]
    hw.set_ce(True)


def ref_stop_carrier_wave(self):
    """CE low, power down, CONT_WAVE and PLL_LOCK cleared and nothing else"""
    hw = self._spi.hw
    hw.set_ce(False)
    ref_power_set(self, False)
    hw.reg[6] = hw.reg[6] & 0x6F
    self._rf_setup = hw.reg[6]


def ens_cw_on(self):
    hw = self._spi.hw
    return (hw.reg[6] & 0x90) == 0x90 and (hw.reg[0] & 3) == 2 and hw.ce


def ens_cw_off(self):
    hw = self._spi.hw
    return (hw.reg[6] & 0x90) == 0 and (hw.reg[0] & 2) == 0 and not hw.ce


CW_POL = {"rf24:RF24.power.setter": "ref:spec.c03:ref_power_set", "rf24:RF24.listen.setter": "ref:" + R8 + "ref_listen_set"}


def _cw(name, target, ref, ens):
    pol = dict(PRIMS)
    pol.update(CW_POL)
    return Contract("C03." + name, target, {"self": rf24_schema()}, requires=[ST + "inv", R8 + "j_inv"], refines=ref,
                    view=ST + "view_cfg", ensures=[("inv", ST + "post_inv"), ens], policy=pol, props=["C03"])


CONTRACTS += [
    _cw("start_carrier_wave", "rf24:RF24.start_carrier_wave", R8 + "ref_start_carrier_wave", ("carrier_on", R8 + "ens_cw_on")),
    _cw("stop_carrier_wave", "rf24:RF24.stop_carrier_wave", R8 + "ref_stop_carrier_wave", ("carrier_off", R8 + "ens_cw_off")),
]
