"""tiny functions used by pyvc.selftest (engine sanity, not part of any property)"""
from pyvc.specrt import implies, ite, forall


def clamp(v, lo, hi):
    return max(lo, min(v, hi))


def lemma_clamp_ok(v):
    r = clamp(v, 1, 32)
    return 1 <= r and r <= 32 and implies(1 <= v and v <= 32, r == v)


def lemma_false(v):
    return (v & 7) <= 5


def lemma_bytes(b):
    c = b + bytes(3)
    return len(c) == len(b) + 3 and c[len(b)] == 0 and c[:len(b)] == b


def loopy(n):
    t = 0
    i = 0
    while i < n:
        t = t + 2
        i = i + 1
    return t


def lemma_loop(n):
    return loopy(n) == 2 * n


class Box:
    pass


def elif_merge(c):
    o = Box()
    o.x = 1
    o.t = 0
    if c == 5:
        o.t = 1
        o.x = 2
    elif not c:
        o.t = 2
    else:
        o.t = 3
        o.x = 99
    return o.x


def lemma_elif(c):
    """if/elif/else whose arms assign different subsets of attributes (if-conversion must keep each)"""
    return elif_merge(c) == ite(c == 5, 2, ite(c == 0, 1, 99))


def lemma_elif_wrong(c):
    return elif_merge(c) == ite(c == 5, 2, 1)


# ---- termination rule (LoopSpec.variant): a timeout loop that consults the clock, and one that does not

import time  # noqa: E402
from pyvc.specrt import clock_now  # noqa: E402


def wait_ok(d):
    deadline = d + time.monotonic_ns()
    n = 0
    while time.monotonic_ns() < deadline:
        n = n + 1
    return n


def wait_bad(d):
    deadline = d + time.monotonic_ns()
    n = 0
    while deadline >= 0:
        n = n + 1
        if n > 1000000 and time.monotonic_ns() < 0:
            break
    return n


def inv_wait(n):
    return n >= 0


def var_wait(deadline):
    return deadline - clock_now()


def ens_wait(result, exc):
    return exc is None and result >= 0
