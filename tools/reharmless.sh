#!/bin/sh
# re-run every stored behaviour-preserving refactoring against the checks recorded for it: every check must exit 0
cd /verif
for d in harmless/*/; do
  id=$(basename $d)
  props=$(python3 -c "import json,re;print(' '.join(re.findall(r'(C\d\d):', json.load(open('$d/meta.json'))['checks_on_refactored_tree'])))")
  git -C /repo apply /verif/$d/patch.diff || { echo "$id NOAPPLY"; continue; }
  res=""
  for p in $props; do bin/check $p --no-evidence >/dev/null 2>&1; res="$res $p:exit$?"; done
  git -C /repo checkout -- .
  echo "$id$res"
done
