"""Path exploration by re-execution: a driver function is run once per decision prefix; every
symbolic branch whose both sides are feasible queues the other side."""
import time
import traceback

from .core import Ctx, PathEnd, PyRaise, ReplayDivergence
from .interp import Interp
from .sym import Unsupported


class PathResult:
    def __init__(self):
        self.obligations = []
        self.outcome = None
        self.decisions = None
        self.side_unknown = []
        self.unsupported = None


class ExploreResult:
    def __init__(self, name):
        self.name = name
        self.paths = []
        self.obligations = []
        self.unsupported = []
        self.side_unknown = []
        self.solver_time = 0.0
        self.solver_calls = 0
        self.wall = 0.0
        self.truncated = False
        self.error = None
        self.covered = set()


def explore(program, name, driver, setup=None, timeout_ms=20000, max_paths=4000, record_smt=False, stop_on_sat=False, recheck=0,
            roots=None, split_after=0, budget_s=None):
    """driver(it) runs one path; returns a short outcome label.

    roots        decision prefixes to start from (default: the empty prefix = the whole tree); every
                 alternative found below a root is explored here as well
    split_after  after that many paths stop and hand the still unexplored alternatives back in
                 .leftover (disjoint subtrees: the caller explores them elsewhere, in parallel)"""
    res = ExploreResult(name)
    res.leftover = []
    work = list(roots) if roots else [[]]
    t0 = time.time()
    while work:
        if len(res.paths) >= max_paths:
            res.truncated = True
            break
        if budget_s is not None and time.time() - t0 > budget_s:
            # e.g. a change made a loop non-terminating: the path tree is infinite.  Shortest prefixes
            # are explored first, so a violation on a short path has been found by now.
            res.truncated = True
            break
        if split_after and len(res.paths) >= split_after and len(work) >= 2:
            res.leftover = work
            break
        prefix = work.pop(0)
        ctx = Ctx(program, prefix, timeout_ms=timeout_ms, record_smt=record_smt)
        if budget_s is not None:
            ctx.deadline = t0 + budget_s + 30
        if recheck > 0 and len(res.paths) < 3:
            ctx.recheck_left = recheck
        it = Interp(program, ctx)
        if setup is not None:
            setup(it)
        pr = PathResult()
        pr.prefix = list(prefix)
        try:
            pr.outcome = driver(it)
        except PathEnd:
            pr.outcome = "infeasible"
        except Unsupported as e:
            pr.outcome = "unsupported"
            pr.unsupported = str(e)
            res.unsupported.append(str(e))
        except ReplayDivergence as e:
            pr.outcome = "replay-divergence"
            res.error = "replay divergence in %s: %s" % (name, e)
        except RecursionError:
            pr.outcome = "unsupported"
            pr.unsupported = "recursion limit"
            res.unsupported.append("recursion limit")
        pr.decisions = list(ctx.decisions)
        pr.obligations = ctx.obligations
        pr.side_unknown = ctx.side_unknown
        res.paths.append(pr)
        res.obligations.extend(ctx.obligations)
        res.side_unknown.extend(ctx.side_unknown)
        res.solver_time += ctx.solver_time
        res.solver_calls += ctx.solver_calls
        for c in ctx.notes:
            res.covered.add(c)
        work.extend(ctx.alts)
        if stop_on_sat and any(o.status == "sat" for o in ctx.obligations):
            break
    res.wall = time.time() - t0
    return res
