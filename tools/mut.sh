#!/bin/sh
# usage: tools/mut.sh <prop> <relative file> <sed expr> [more check args]  -- run a check on a mutated scratch copy
prop="$1"; file="$2"; expr="$3"; shift 3
d=$(mktemp -d /tmp/mut.XXXXXX)
cp -r /repo/circuitpython_nrf24l01 "$d/"
sed -i "$expr" "$d/$file"
if cmp -s "$d/$file" "/repo/$file"; then echo "MUTATION DID NOT APPLY"; rm -rf "$d"; exit 9; fi
cd /verif && bin/check "$prop" --repo "$d" --no-evidence "$@" | tail -4
rc=$?
rm -rf "$d"
exit $rc
